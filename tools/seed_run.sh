#!/bin/bash
# usage: tools/seed_run.sh <seed name under /verif/seeded> <property> [quick|thorough]
# Applies the seeded change to /repo, runs the property's check, and always reverts /repo.
set -u
S=/verif/seeded/$1; P=$2; T=${3:-quick}
cd /repo || exit 2
if ! git diff --quiet; then echo "/repo has uncommitted changes; refusing"; exit 2; fi
git apply $S/patch.diff || { echo "patch does not apply"; exit 3; }
cd /verif
timeout ${SEED_TIMEOUT:-3400} ./check $P $T > /tmp/seedrun-$1-$P.log 2>&1; RC=$?
git -C /repo checkout -- .
echo "seed=$1 property=$P tier=$T exit=$RC"
grep -c '^VIOLATION' /tmp/seedrun-$1-$P.log
grep -m3 -A2 '^VIOLATION' /tmp/seedrun-$1-$P.log | cut -c1-400
tail -1 /tmp/seedrun-$1-$P.log | cut -c1-300
