#!/bin/bash
# usage: tools/seed_run.sh <seed name under /verif/seeded> <property> [quick|thorough]
# Applies the seeded change to the repository (VERIF_REPO, default /repo), runs the property's check, and always reverts.
set -u
S=/verif/seeded/$1; P=$2; T=${3:-quick}
R=${VERIF_REPO:-/repo}
cd $R || exit 2
if ! git diff --quiet; then echo "$R has uncommitted changes; refusing"; exit 2; fi
git apply $S/patch.diff || { echo "patch does not apply"; exit 3; }
cd /verif
timeout ${SEED_TIMEOUT:-3400} ./check $P $T > /tmp/seedrun-$1-$P.log 2>&1; RC=$?
git -C $R checkout -- .
echo "seed=$1 property=$P tier=$T exit=$RC"
grep -c '^VIOLATION' /tmp/seedrun-$1-$P.log
grep -m3 -A2 '^VIOLATION' /tmp/seedrun-$1-$P.log | cut -c1-400
tail -1 /tmp/seedrun-$1-$P.log | cut -c1-300
