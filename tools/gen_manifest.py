#!/usr/bin/env python3
"""Generates /verif/MANIFEST.json from the table below (kept in one place so the claims stay consistent)."""
import json, os

V = os.path.dirname(os.path.dirname(os.path.abspath(__file__)))
TECH = "SMT-based bounded symbolic execution of go/ssa (gosym + z3 5.1), native replay of every counterexample"
BASE_NOTE = ("trusted: go/packages + go/ssa, the gosym interpreter and its standard-library models (validated on every run by replaying "
             "witness models natively and comparing the observed values), z3; bounds and what lies outside them are in evidence.bounds / "
             "evidence.assumptions")

CHECKS = {
 "C01": ("order laws (reflexive, sign-antisymmetric, transitive, congruent, build metadata ignored) asserted on the real compare over symbolic "
         "versions: struct-level templates with full-width symbolic numbers for the SemVer-shaped systems plus a coverage lemma over all byte "
         "strings, template strings through the real parser for Maven, PyPI and RubyGems", "§7 C01, §11"),
 "C02": ("differential against transcriptions of SemVer 2.0 §11 / NuGet SemVer2 (npm, Cargo, Go, NuGet) and packaging's _cmpkey (PyPI) over "
         "template fields; Maven and RubyGems orderings are not decided (no transcription built)", "§7 C02, §11"),
 "C03": ("differential against transcriptions of node-semver 7 (desugaring of every comparator to primitive bounds + prerelease admission rule), PEP 440 specifier "
         "clauses on final releases and Maven VersionRange over structured requirement templates; Cargo VersionReq is not decided", "§7 C03, §11"),
 "C04": ("every implicit panic check and loop bound on every feasible path of the text entry points of util/semver (9 systems), util/pypi and the "
         "PyPI marker parser, inputs = all byte strings up to the stated lengths", "§7 C04, §11"),
 "C05": ("sequential clauses for all three resolvers (whole Resolve executed symbolically on skeleton universes): the client reports the same "
         "requirements and versions in the same order after Resolve; asking again, resolving another root in between on the same resolver and "
         "inserting the versions in the opposite order give the same graph; plus the PyPI getDependencies/matching-prereleases call sites. "
         "Concurrent Resolve calls are not decided (the engine has no scheduler)", "§7 C05, §11"),
 "C06": ("graph clauses (edge satisfies requirement, every non-dev non-peer requirement resolved or reported, reachability, fresh-install choice "
         "for every node) and, through the verif-tagged hook, the install-tree clauses (tree nodes = graph nodes, no directory holds one name twice, "
         "Node's walk-up lookup lands on the edge's target) asserted on the real npm Resolve over skeleton universes (3-4 packages, <=3 versions, two "
         "requirement slots per version, optional/dev/peer/bundle-scoped kinds, aliases) with symbolic digits in versions or requirements; bundled "
         "(derived) packages are not generated", "§7 C06, §11"),
 "C07": ("unit lemmas (findMatch preference order, exclusions, root-only scopes, artifact identity) plus the real Maven Resolve over skeleton "
         "universes with symbolic version numbers (one version per artifact, ranges respected, root-only scopes, war not traversed, management "
         "override, nearest-wins on soft-only skeletons)", "§7 C07, §11"),
 "C08": ("unit lemmas of the PyPI resolver state (criteria, versionMap, intersect, filterSlice, copy independence) plus the real PyPI Resolve over "
         "skeleton universes with symbolic version numbers, specifier numbers and marker thresholds (one version per package, true-marker requirements "
         "are edges to satisfying versions, false-marker ones contribute nothing, reachability, root kept)", "§7 C08, §11"),
 "C09": ("membership laws of the real Union/Intersect/canon/matchVersion over constraint templates with symbolic digits (Default, NPM, Cargo, Go)", "§7 C09, §11"),
 "C10": ("Parse -> Canon -> Parse -> compare/Canon on all byte strings up to the stated length, plus same-canon-implies-equal on pairs", "§7 C10, §11"),
 "C11": ("Set.String -> ParseSetConstraint round trip (text identity and prerelease-inclusive matching) over constraint templates (Default, NPM, Cargo, Go, NuGet)", "§7 C11, §11"),
 "C12": ("exact membership against the real constraint, ascending order, latest/tag rules and independence of the input order for MatchRequirement over templated lists (NPM, Maven, PyPI)", "§7 C12, §11"),
 "C13": ("the real Graph.Canon on graphs with parameter-given structure and symbolic labels, against a renumbered and shuffled copy; idempotence and preservation clauses", "§7 C13, §11"),
 "C14": ("the real LocalClient against a map-based reference over AddVersion histories with symbolic attributes", "§7 C14, §11"),
 "C15": ("partial: interpolation terminates, leaves and reports unresolved placeholders (symbolic dictionaries incl. cycles; arbitrary bytes); property precedence lemmas. Equality with Maven's model builder is not decided", "§7 C15, §11"),
 "C16": ("ParseDependency and CanonPackageName against the decomposition known by construction of PEP 508 strings; marker parser+evaluator against a transcription of packaging's rule", "§7 C16, §11"),
 "C18": ("partial, sequential: alias split (npm:name@range) in flattenNPMDeps and the bundle mapping of npmRequirements over symbolic names and bundle trees; "
         "the gRPC round trip and the goroutine-interleaving clauses are not decided", "§7 C18, §11"),
 "C19": ("order laws and equality characterisation of attr.Set.Compare, clone independence, versiontest text round trip", "§7 C19, §11"),
}

NA = [
 {"property_id": "C17", "reason": "no symbolic input: a finite relation between two .proto files and two generated descriptor blobs; deciding it is complete enumeration of descriptors, not solver-based checking, and protoimpl/reflection code is not encodable"},
]


def main():
    extra_na = json.load(open(os.path.join(V, "tools", "not_applicable_extra.json"))) if os.path.exists(os.path.join(V, "tools", "not_applicable_extra.json")) else []
    checks = []
    for pid in sorted(CHECKS):
        if any(x["property_id"] == pid for x in extra_na):
            continue
        text, ref = CHECKS[pid]
        checks.append({
            "property_id": pid,
            "quick_cmd": "./check %s quick" % pid,
            "thorough_cmd": "./check %s thorough" % pid,
            "evidence_file": "/verif/evidence/%s.json" % pid,
            "replay_cmd_template": "./check --replay {path}",
            "engine": "gosym",
            "level_claimed": {"category": "model_checking",
                              "text": "bounded symbolic execution of the real code: " + text + "; the solver decides each assertion for all input values on every feasible path inside the stated bounds",
                              "design_ref": "DESIGN.md " + ref},
            "level_note": BASE_NOTE,
            "technique": TECH,
        })
    m = {
        "version": 1,
        "setup_cmd": "cd /verif/engine && GOFLAGS=-mod=mod GOPROXY=off GOSUMDB=off GOTOOLCHAIN=local go build -o /verif/bin/gosym .",
        "hooks": {
            "guard": "verif",
            "enable": "build tag `verif` (go/packages BuildFlags -tags=verif in the engine, go test -tags verif in native replay) for util/resolve/npm only: verif_hook.go hands the final install tree of npm Resolve to a callback; without the tag verif_nohook.go makes the one call at the end of Resolve a no-op. Harnesses themselves are never compiled into /repo: they are injected with go/packages overlays (engine) and go test -overlay (native replay)",
            "baseline_off_cmd": "for m in api/v3 api/v3alpha util/semver util/pypi util/maven util/resolve; do (cd /repo/$m && GOFLAGS=-mod=mod GOPROXY=off go test -vet=off -count=1 ./...) || exit 1; done",
            "source_commits": ["64956cb"],
            "add_only": True,
        },
        "engines": [{"name": "gosym", "path": "/verif/engine", "serves_properties": sorted(c["property_id"] for c in checks),
                     "kind_free_text": "bounded symbolic executor for go/ssa (rebuilt from /repo's current sources on every run) with an SMT back end (z3 5.1.0 over a pipe, QF_BV), region merging, summaries of pure callees, native replay of every counterexample and of witness models through go test -overlay"}],
        "checks": checks,
        "not_applicable": NA + extra_na,
        "notes": "fix: commits in /repo repair defects the checks found (see known_findings.json and DESIGN.md §12); seeded changes and which checks catch them are in DESIGN.md §13",
    }
    json.dump(m, open(os.path.join(V, "MANIFEST.json"), "w"), indent=1)
    print("wrote MANIFEST.json with", len(checks), "checks")


if __name__ == "__main__":
    main()
