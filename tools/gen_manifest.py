#!/usr/bin/env python3
"""Generates /verif/MANIFEST.json from the table below (kept in one place so the claims stay consistent)."""
import json, os

V = os.path.dirname(os.path.dirname(os.path.abspath(__file__)))
TECH = "SMT-based bounded symbolic execution of go/ssa (gosym + z3 5.1), native replay of every counterexample"
BASE_NOTE = ("trusted: go/packages + go/ssa, the gosym interpreter and its standard-library models (validated on every run by replaying "
             "witness models natively and comparing the observed values), z3; bounds and what lies outside them are in evidence.bounds / "
             "evidence.assumptions")

CHECKS = {
 "C01": ("order laws (reflexive, sign-antisymmetric, transitive, congruent, build metadata ignored) asserted on the real compare over symbolic "
         "versions: struct-level templates with full-width symbolic numbers for the SemVer-shaped systems plus a coverage lemma over all byte "
         "strings, template strings through the real parser for Maven, PyPI and RubyGems", "§7 C01, §11"),
 "C02": ("differential against transcriptions of SemVer 2.0 §11 / NuGet SemVer2 (npm, Cargo, Go, NuGet; incl. ten-digit numeric identifiers), packaging's _cmpkey (PyPI), Maven's ComparableVersion (3.6-3.8.6 algorithm on the version text, counterexamples adjudicated with the maven-artifact 3.8.7 jar; '.'-joined qualifiers, which the two Maven releases order differently, are left out) and the published Gem::Version#<=> (RubyGems) over template pairs", "§7 C02, §11"),
 "C03": ("differential against transcriptions of node-semver 7 (desugaring of every comparator to primitive bounds + prerelease admission rule), the semver crate's VersionReq for Cargo (comma lists, default caret, partial versions, wildcards) through the same desugaring, PEP 440 specifier clauses on final releases and Maven VersionRange over structured requirement templates", "§7 C03, §11"),
 "C04": ("every implicit panic check and loop bound on every feasible path of the text entry points of util/semver (9 systems), util/pypi, the PyPI marker parser, util/resolve/schema (ParseResolve, New), the deptest/versiontest attribute parsers, resolve.MavenDepTypeToDependency and util/maven (profile activation, project keys, MergeParent+Interpolate+ProcessDependencies on a project with arbitrary-byte fields); inputs = all byte strings up to the stated lengths (grammar-alphabet bytes for the longer schema texts and row templates). Entry points built on net/mail, archive/*, encoding/xml and regexp are outside", "§7 C04, §11"),
 "C05": ("sequential clauses for all three resolvers (whole Resolve executed symbolically on skeleton universes of both generations): the client reports the same requirements and versions in the same order after Resolve; asking again, resolving another root in between on the same resolver and inserting the versions in the opposite order give the same graph, and the other root's graph equals a fresh resolver's. Concurrency clause decided sequentially as a lockset discipline on every path of one Resolve call (state that existed before the call is written only under an exclusive lock or through sync/atomic, and read under a lock where it is written), counterexamples replayed as 8 concurrent calls under the race detector; goroutine interleavings themselves are not explored (the engine has no scheduler)", "§7 C05, §11"),
 "C06": ("graph clauses (edge satisfies requirement, every non-dev non-peer requirement resolved or reported, reachability, fresh-install choice for every node) and, through the verif-tagged hook, the install-tree clauses (tree nodes = graph nodes, no directory holds one name twice, Node's walk-up lookup lands on the edge's target) asserted on the real npm Resolve over skeleton universes (3-4 packages, <=3 versions, two requirement slots per version, optional/dev/peer/bundle-scoped kinds, aliases incl. a directed family with an alias named like a real package) with symbolic digits in versions or requirements; universes with bundled (derived) packages are generated too (random and a directed family where the installed version is not the highest match), with the graph clauses and two clauses on where bundle content sits", "§7 C06, §11"),
 "C07": ("unit lemmas (findMatch preference order incl. one hard range among two soft requirements, exclusions, root-only scopes, artifact identity) plus the real Maven Resolve over skeleton universes with symbolic version numbers (one version per artifact, ranges respected, root-only scopes, war not traversed, management override, nearest-wins with exclusions inherited along paths against a breadth-first reference on soft-only skeletons incl. directed families: a diamond with an exclusion, an excluding dependency before a sibling that reaches the excluded artifact, the default type jar spelled out on one of two declarations)", "§7 C07, §11"),
 "C08": ("unit lemmas of the PyPI resolver state (criteria, versionMap, intersect, filterSlice, copy independence) plus the real PyPI Resolve over skeleton universes of two generations (symbolic version/specifier numbers and marker thresholds; two requirement slots per version, cycles through the root package, requested extras and extra-guarded requirements, prerelease specifiers): one version per package, root never replaced, a requirement whose marker is true for the extras requested in the final graph is an edge to a satisfying version, a false one contributes nothing, reachability", "§7 C08, §11"),
 "C09": ("membership laws of the real Union/Intersect/canon/matchVersion over constraint templates with symbolic digits (Default, NPM, Cargo, Go), incl. multi-span operands, spans written in the set syntax and operands whose spans overlap and stay unmerged", "§7 C09, §11"),
 "C10": ("Parse -> Canon -> Parse -> compare/Canon on all byte strings up to the stated length, plus same-canon-implies-equal on pairs; util/pypi CanonVersion over PEP 440 templates", "§7 C10, §11"),
 "C11": ("Set.String -> ParseSetConstraint round trip (text identity and prerelease-inclusive matching) over constraint templates (Default, NPM, Cargo, Go, NuGet)", "§7 C11, §11"),
 "C12": ("exact membership against the real constraint, exact order (ascending, unparsable npm versions last, the latest-tagged version moved last unless it is a prerelease while the list holds releases), tag selection and independence of the input order for MatchRequirement, and permutation-invariance/idempotence of SortVersions, over templated lists (NPM, Maven, PyPI); LocalClient.MatchingVersions equals MatchRequirement over the list the client holds, before and after a version is added again with other attributes", "§7 C12, §11"),
 "C13": ("the real Graph.Canon on graphs with parameter-given structure and symbolic labels (up to two errors per node), against a copy with renumbered nodes, rotated edges and errors recorded in the opposite order; idempotence and preservation of root, node multiset with errors, counts and edges", "§7 C13, §11"),
 "C14": ("the real LocalClient against a map-based reference over AddVersion histories of up to 3 (thorough 4) steps with a symbolic tag (none, latest, other) and requirement types, incl. an unparsable npm version and queries between the additions: lookups, listings in exact npm order, requirements, matching, mentioned packages, not-found", "§7 C14, §11"),
 "C15": ("partial: interpolation terminates, leaves and reports unresolved placeholders (symbolic dictionaries incl. cycles; arbitrary bytes); precedence lemmas (child over parent, explicit over un-prefixed built-ins, prefixed built-ins over explicit properties, dependencyManagement imports depth-first in declaration order with first declaration winning; management fills in exactly the empty fields; profile activation by OS criteria, by default and by a plain jdk value, and what MergeProfiles makes of the active profiles). Equality with Maven's model builder is not decided", "§7 C15, §11"),
 "C16": ("ParseDependency and CanonPackageName against the decomposition known by construction of PEP 508 strings; marker parser+evaluator against a transcription of packaging's rule (variable x operator x literal incl. v-prefixed versions, literal or extra on either side, and/or/parentheses)", "§7 C16, §11"),
 "C18": ("partial: alias split (npm:name@range) in flattenNPMDeps, several dependencies across the four sections plus bundleDependencies each keeping its own name, range, section and alias, the bundle mapping of npmRequirements over symbolic names and bundle trees (depth <= 3, bundles installed under an alias), end to end the npm resolver over the API-backed client (an in-process stand-in implementing the generated InsightsClient interface) against the in-memory client on skeleton universes, and the race clause as a lockset discipline on one Resolve through a shared API-backed client (counterexamples replayed as 8 concurrent resolutions under the race detector); gRPC transport and goroutine interleavings themselves are not explored", "§7 C18, §11"),
 "C19": ("order laws and equality characterisation of attr.Set.Compare, clone independence, versiontest text round trip (incl. values that spell attribute key names)", "§7 C19, §11"),
}

NA = [
 {"property_id": "C17", "reason": "no symbolic input: a finite relation between two .proto files and two generated descriptor blobs; deciding it is complete enumeration of descriptors, not solver-based checking, and protoimpl/reflection code is not encodable"},
]


def main():
    extra_na = json.load(open(os.path.join(V, "tools", "not_applicable_extra.json"))) if os.path.exists(os.path.join(V, "tools", "not_applicable_extra.json")) else []
    checks = []
    for pid in sorted(CHECKS):
        if any(x["property_id"] == pid for x in extra_na):
            continue
        text, ref = CHECKS[pid]
        checks.append({
            "property_id": pid,
            "quick_cmd": "./check %s quick" % pid,
            "thorough_cmd": "./check %s thorough" % pid,
            "evidence_file": "/verif/evidence/%s.json" % pid,
            "replay_cmd_template": "./check --replay {path}",
            "engine": "gosym",
            "level_claimed": {"category": "model_checking",
                              "text": "bounded symbolic execution of the real code: " + text + "; the solver decides each assertion for all input values on every feasible path inside the stated bounds",
                              "design_ref": "DESIGN.md " + ref},
            "level_note": BASE_NOTE,
            "technique": TECH,
        })
    m = {
        "version": 1,
        "setup_cmd": "cd /verif/engine && GOFLAGS=-mod=mod GOPROXY=off GOSUMDB=off GOTOOLCHAIN=local go build -o /verif/bin/gosym .",
        "hooks": {
            "guard": "verif",
            "enable": "build tag `verif` (go/packages BuildFlags -tags=verif in the engine, go test -tags verif in native replay) for util/resolve/npm only: verif_hook.go hands the final install tree of npm Resolve to a callback; without the tag verif_nohook.go makes the one call at the end of Resolve a no-op. Harnesses themselves are never compiled into /repo: they are injected with go/packages overlays (engine) and go test -overlay (native replay)",
            "baseline_off_cmd": "for m in api/v3 api/v3alpha util/semver util/pypi util/maven util/resolve; do (cd /repo/$m && GOFLAGS=-mod=mod GOPROXY=off go test -vet=off -count=1 ./...) || exit 1; done",
            "source_commits": ["64956cb"],
            "add_only": True,
        },
        "engines": [{"name": "gosym", "path": "/verif/engine", "serves_properties": sorted(c["property_id"] for c in checks),
                     "kind_free_text": "bounded symbolic executor for go/ssa (rebuilt from /repo's current sources on every run) with an SMT back end (z3 5.1.0 over a pipe, QF_BV), region merging, summaries of pure callees, native replay of every counterexample and of witness models through go test -overlay"}],
        "checks": checks,
        "not_applicable": NA + extra_na,
        "notes": "fix: commits in /repo repair defects the checks found (see known_findings.json and DESIGN.md §12); seeded changes and which checks catch them are in DESIGN.md §13",
    }
    json.dump(m, open(os.path.join(V, "MANIFEST.json"), "w"), indent=1)
    print("wrote MANIFEST.json with", len(checks), "checks")


if __name__ == "__main__":
    main()
