#!/bin/bash
# usage: tools/seed_verify.sh <mutation dir with patch.diff demo_test.go meta.json> <package dir for demo, e.g. util/semver>
# Confirms in a scratch worktree of /repo HEAD: with the patch the four module suites pass and the demo fails;
# without it the demo passes.
set -u
export GOFLAGS=-mod=mod GOPROXY=off GOSUMDB=off GOTOOLCHAIN=local
M=$(realpath "$1"); PKG=$2
WT=$(mktemp -d /tmp/seedwt-XXXX); rmdir $WT
git -C /repo worktree add -q --detach $WT HEAD || exit 2
cleanup() { git -C /repo worktree remove --force $WT >/dev/null 2>&1; }
trap cleanup EXIT
cp $M/demo_test.go $WT/$PKG/zz_mutdemo_test.go
(cd $WT/$PKG && timeout 300 go test -count=1 -run 'TestMutDemo' . >/tmp/seed_demo_clean.log 2>&1); CLEAN=$?
rm $WT/$PKG/zz_mutdemo_test.go
git -C $WT apply $M/patch.diff || { echo "PATCH DOES NOT APPLY"; exit 3; }
SUITE=0
for m in util/semver util/resolve util/pypi util/maven; do
  (cd $WT/$m && timeout 900 go test -vet=off -count=1 ./... >/tmp/seed_suite.log 2>&1) || { SUITE=1; echo "suite fails in $m"; tail -5 /tmp/seed_suite.log; }
done
cp $M/demo_test.go $WT/$PKG/zz_mutdemo_test.go
(cd $WT/$PKG && timeout 300 go test -count=1 -run 'TestMutDemo' . >/tmp/seed_demo_mut.log 2>&1); MUT=$?
echo "demo on clean tree exit=$CLEAN (want 0); suites with patch exit=$SUITE (want 0); demo with patch exit=$MUT (want !=0)"
if [ $CLEAN -eq 0 ] && [ $SUITE -eq 0 ] && [ $MUT -ne 0 ]; then echo CONFIRMED; exit 0; fi
echo NOT-CONFIRMED; exit 1
