#!/bin/bash
# usage: tools/seed_ingest.sh <name under /tmp/mut> <seed name, e.g. C06-m1>
# Copies a sub-agent's deliverables into /verif/seeded/<seed>, confirms them with seed_verify.sh in a fresh
# worktree, records what was run in meta.json, and removes the agent's scratch worktree /tmp/wt/<name>.
set -u
N=$1; S=$2
D=/verif/seeded/$S
mkdir -p $D
cp /tmp/mut/$N/patch.diff /tmp/mut/$N/demo_test.go /tmp/mut/$N/meta.json $D/ || exit 2
PKG=$(python3 -c "import json;print(json.load(open('$D/meta.json'))['demo_package'])")
OUT=$(/verif/tools/seed_verify.sh $D $PKG 2>&1); RC=$?
echo "$OUT" | tail -3
if [ $RC -ne 0 ]; then echo "NOT CONFIRMED: keeping $D for inspection"; exit 1; fi
python3 - <<PY
import json
p='$D/meta.json'
m=json.load(open(p))
m['confirmed']="tools/seed_verify.sh seeded/$S $PKG: clean-tree demo passes; with the patch all four module suites pass and the demo fails"
m['source']="independent sub-agent given only the property text and its own worktree"
json.dump(m,open(p,'w'),indent=1)
PY
git -C /repo worktree remove --force /tmp/wt/$N 2>/dev/null
echo "ingested $S"
