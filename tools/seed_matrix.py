#!/usr/bin/env python3
"""usage: tools/seed_matrix.py [-j N] [-t quick|thorough] [seed ...]

Runs each seeded change (default: all under /verif/seeded) against the check of the
property it breaks, in a scratch worktree of /repo's HEAD (never /repo itself), N at
a time, and writes /verif/seeded/RESULTS.json: seed -> {exit, violations, first line}.
Scratch worktrees and outputs live under /tmp/seedmx and are removed afterwards."""
import json
import os
import shutil
import subprocess
import sys
import time
from concurrent.futures import ThreadPoolExecutor

V = os.path.dirname(os.path.dirname(os.path.abspath(__file__)))
BASE = "/tmp/seedmx"


def run_one(seed, tier, workers):
    sd = os.path.join(V, "seeded", seed)
    meta = json.load(open(os.path.join(sd, "meta.json")))
    prop = meta["property"]
    wt = os.path.join(BASE, "wt-" + seed)
    out = os.path.join(BASE, "out-" + seed)
    shutil.rmtree(out, ignore_errors=True)
    os.makedirs(out)
    subprocess.run(["git", "-C", "/repo", "worktree", "remove", "--force", wt], capture_output=True)
    r = subprocess.run(["git", "-C", "/repo", "worktree", "add", "-q", "--detach", wt, "HEAD"], capture_output=True, text=True)
    if r.returncode != 0:
        return seed, {"property": prop, "error": "worktree: " + r.stderr}
    try:
        r = subprocess.run(["git", "-C", wt, "apply", os.path.join(sd, "patch.diff")], capture_output=True, text=True)
        if r.returncode != 0:
            return seed, {"property": prop, "error": "patch does not apply: " + r.stderr[:300]}
        env = dict(os.environ, VERIF_REPO=wt, VERIF_OUT=out, VERIF_WORKERS=str(workers))
        t0 = time.time()
        try:
            r = subprocess.run([os.path.join(V, "check"), prop, tier], cwd=V, env=env, capture_output=True, text=True, timeout=3600)
            rc, log = r.returncode, r.stdout + r.stderr
        except subprocess.TimeoutExpired:
            rc, log = -1, "timeout"
        lines = log.splitlines()
        vio = [l for l in lines if l.startswith("VIOLATION")]
        what = [l.strip() for l in lines if l.startswith("  harness=")]
        inc = [l for l in lines if l.startswith("INCONCLUSIVE")]
        open(os.path.join(BASE, "log-%s.txt" % seed), "w").write(log)
        return seed, {"property": prop, "tier": tier, "exit": rc, "violations": len(vio), "caught": rc == 1 and len(vio) > 0,
                      "what": sorted(set(w.split(" what=")[1].split(" native=")[0] + " @" + w.split("harness=")[1].split(" ")[0] for w in what if " what=" in w))[:6],
                      "inconclusive": [l[:300] for l in inc[:3]], "wall_s": round(time.time() - t0, 1)}
    finally:
        subprocess.run(["git", "-C", "/repo", "worktree", "remove", "--force", wt], capture_output=True)
        shutil.rmtree(out, ignore_errors=True)


def main():
    args = sys.argv[1:]
    j, tier = 4, "quick"
    while args and args[0].startswith("-"):
        if args[0] == "-j":
            j = int(args[1]); args = args[2:]
        elif args[0] == "-t":
            tier = args[1]; args = args[2:]
        else:
            break
    seeds = args or sorted(d for d in os.listdir(os.path.join(V, "seeded")) if os.path.isdir(os.path.join(V, "seeded", d)))
    os.makedirs(BASE, exist_ok=True)
    rp = os.path.join(V, "seeded", "RESULTS.json")
    res = json.load(open(rp)) if os.path.exists(rp) else {}
    workers = max(4, 16 // j)
    with ThreadPoolExecutor(j) as ex:
        for seed, r in ex.map(lambda s: run_one(s, tier, workers), seeds):
            res[seed] = r
            print(seed, json.dumps(r)[:400], flush=True)
            # merge into the file as it is now: several matrix runs may be going at once
            cur = json.load(open(rp)) if os.path.exists(rp) else {}
            cur[seed] = r
            json.dump(cur, open(rp, "w"), indent=1, sort_keys=True)
    subprocess.run(["git", "-C", "/repo", "worktree", "prune"], capture_output=True)


if __name__ == "__main__":
    main()
