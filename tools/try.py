#!/usr/bin/env python3
"""dev helper: tools/try.py <pkgkey> <props module> <harness> <count> [offset]  — runs a few jobs of a props module's job list and prints per-job results"""
import importlib, json, sys, os
sys.path.insert(0, os.path.dirname(os.path.dirname(os.path.abspath(__file__))))
from vlib import driver, runner

def main():
    pkg, mod, harness, count = sys.argv[1], sys.argv[2], sys.argv[3], int(sys.argv[4])
    off = int(sys.argv[5]) if len(sys.argv) > 5 else 0
    captured = {}
    def fake(prop, tier, groups, **kw):
        captured["groups"] = groups
        return 0
    m = importlib.import_module("props." + mod)
    m.run_property = fake
    m.run(os.environ.get("TIER", "quick"))
    jobs = [j for g in captured["groups"] if g.pkg == pkg for j in g.jobs if j["harness"] == harness][off:off + count]
    known = [k for k in driver.load_known()]
    for k in known:
        if k.get("region_param"):
            for j in jobs:
                j.setdefault("params", {})[k["region_param"]] = 1 if k["status"] == "open" else 0
    out, err, wall = driver.run_engine(pkg, jobs, qtimeout_ms=20000, wall_timeout_s=3000)
    if err:
        print("ERR", err); return
    for jr in out["results"]:
        print(json.dumps({k: jr.get(k) for k in ("paths", "complete", "error", "outcomes", "covers", "wall_s", "notes", "undischarged")})[:600])
        if jr.get("outside_bound"):
            print("   OUTSIDE", json.dumps(jr["outside_bound"])[:600])
        if jr.get("global_writes"):
            print("   GW", json.dumps(jr["global_writes"])[:1500])
        for v in (jr.get("violations") or [])[:int(os.environ.get("NV", "3"))]:
            print("   VIOL", v["kind"], v["id"], v.get("pos"), json.dumps(v["model"])[:300], "params=", json.dumps(jr["params"])[:int(os.environ.get("PW", "200"))])
            if os.environ.get("REPLAY"):
                nr = driver.native_replay(pkg, [{"harness": jr["harness"], "params": jr["params"], "model": v["model"], "tag": v["id"]}])[0]
                print("   NATIVE", nr["outcome"], nr.get("failed"))
                for n in nr.get("notes") or []:
                    print("      " + n)
                if nr.get("race_report"):
                    print(nr["race_report"][:800])
    print("wall", wall)
main()
