package main

import (
	"fmt"
	"go/constant"
	"go/token"
	"go/types"
	"os"
	"strings"

	"golang.org/x/tools/go/ssa"
)

type deferred struct {
	fn   Value
	args []Value
	inv  *ssa.CallCommon
}

type frame struct {
	fn     *ssa.Function
	locals map[ssa.Value]Value
	env    []Value
	block  *ssa.BasicBlock
	prev   *ssa.BasicBlock
	defers []deferred
	visits map[int]int
	pos    token.Pos

	skipPhis bool
}

func (e *Engine) posString(p token.Pos) string {
	if !p.IsValid() {
		return "?"
	}
	ps := e.fset.Position(p)
	f := ps.Filename
	if i := strings.Index(f, "/repo/"); i >= 0 {
		f = f[i+6:]
	} else if i := strings.Index(f, "/src/"); i >= 0 {
		f = f[i+5:]
	}
	return fmt.Sprintf("%s:%d", f, ps.Line)
}

func (r *Run) curPos() token.Pos {
	for i := len(r.frames) - 1; i >= 0; i-- {
		if r.frames[i].pos.IsValid() {
			return r.frames[i].pos
		}
	}
	return token.NoPos
}

func (r *Run) goPanic(format string, args ...interface{}) {
	panic(pathEnd{kind: OutPanic, msg: fmt.Sprintf(format, args...), pos: r.curPos()})
}

// oblige forks on a failure condition; the failing side ends as a Go panic.
func (r *Run) oblige(fail *Term, format string, args ...interface{}) {
	if fail.IsFalse() {
		return
	}
	if r.merging > 0 {
		r.guardSpeculative(fail)
		return
	}
	if r.Branch(fail) {
		r.goPanic(format, args...)
	}
}

func (r *Run) constValue(c *ssa.Const) Value {
	e := r.eng
	t := c.Type()
	if c.Value == nil {
		return e.zero(t)
	}
	if b, ok := t.Underlying().(*types.Basic); ok {
		if w, signed, ok := basicWidth(b); ok {
			if w == 0 {
				return e.tt.Bool(constant.BoolVal(c.Value))
			}
			cv := constant.ToInt(c.Value)
			if signed {
				if i, exact := constant.Int64Val(cv); exact {
					return e.tt.Const(w, uint64(i))
				}
				u, _ := constant.Uint64Val(cv)
				return e.tt.Const(w, u)
			}
			if u, exact := constant.Uint64Val(cv); exact {
				return e.tt.Const(w, u)
			}
			i, _ := constant.Int64Val(cv)
			return e.tt.Const(w, uint64(i))
		}
		if b.Info()&types.IsString != 0 {
			return e.strConst(constant.StringVal(c.Value))
		}
		if b.Info()&types.IsFloat != 0 {
			f, _ := constant.Float64Val(c.Value)
			return FloatV{F: f}
		}
	}
	// Type parameters instantiated to basic kinds etc.
	switch c.Value.Kind() {
	case constant.Int:
		if w, _, ok := intInfo(t); ok {
			i, _ := constant.Int64Val(c.Value)
			return e.tt.Const(w, uint64(i))
		}
	case constant.String:
		return e.strConst(constant.StringVal(c.Value))
	case constant.Bool:
		return e.tt.Bool(constant.BoolVal(c.Value))
	}
	r.unsupported("constant %s of type %s", c.Value, t)
	return nil
}

func (r *Run) get(f *frame, v ssa.Value) Value {
	switch x := v.(type) {
	case *ssa.Const:
		return r.constValue(x)
	case *ssa.Global:
		return PtrV{Obj: r.eng.globalObject(r, x)}
	case *ssa.Function:
		return FuncV{Fn: x}
	case *ssa.Builtin:
		return FuncV{Builtin: x}
	case *ssa.FreeVar:
		for i, fv := range f.fn.FreeVars {
			if fv == x {
				return f.env[i]
			}
		}
		panic("free var not found")
	}
	val, ok := f.locals[v]
	if !ok {
		panic(fmt.Sprintf("no value for %s (%T) in %s", v.Name(), v, f.fn))
	}
	return val
}

// ---- memory

func (r *Run) checkWritable(obj *Object) {
	if r.barrier > 0 && obj.ID <= r.barrier {
		panic(summaryImpure{msg: fmt.Sprintf("store to pre-existing object (%s) at %s", r.eng.objName(obj), r.eng.posString(r.curPos()))})
	}
	if obj.Frozen {
		r.eng.noteFrozenWrite(r, obj)
	}
	if r.shareAt > 0 && obj.ID <= r.shareAt {
		r.noteSharedWrite(obj.ID)
	}
}

// noteSharedWrite / noteSharedRead implement the lockset discipline on objects that existed at the share
// barrier: a write needs an exclusive lock (or to be a sync/atomic operation); a read of an object that is also
// written during the run needs some lock.
func (r *Run) noteSharedWrite(id int) {
	if r.atomicDepth > 0 {
		return
	}
	pos := r.eng.posString(r.curPos())
	if r.sharedWritten == nil {
		r.sharedWritten = map[int]string{}
	}
	if _, ok := r.sharedWritten[id]; !ok {
		r.sharedWritten[id] = pos
	}
	if r.wlocks == 0 {
		r.unlockedWrites = append(r.unlockedWrites, pos)
	}
}

func (r *Run) noteSharedRead(id int) {
	if r.atomicDepth > 0 || r.anyLocks > 0 {
		return
	}
	if r.unlockedReads == nil {
		r.unlockedReads = map[int]string{}
	}
	if _, ok := r.unlockedReads[id]; !ok {
		r.unlockedReads[id] = r.eng.posString(r.curPos())
	}
}

func (r *Run) checkMapWritable(m *MapObj) {
	if r.barrier > 0 && m.ID <= r.barrier {
		panic(summaryImpure{msg: fmt.Sprintf("write to pre-existing map at %s", r.eng.posString(r.curPos()))})
	}
	if m.Frozen {
		r.eng.noteFrozenMapWrite(r, m)
	}
	if r.shareAt > 0 && m.ID <= r.shareAt {
		r.noteSharedWrite(m.ID)
	}
}

func (r *Run) load(p PtrV) Value {
	if p.Obj == nil {
		r.goPanic("nil pointer dereference")
	}
	if r.shareAt > 0 && p.Obj.ID <= r.shareAt {
		r.noteSharedRead(p.Obj.ID)
	}
	if p.Sym == nil {
		return nodeAt(p.Obj.Val, p.Path)
	}
	arr := nodeAt(p.Obj.Val, p.Path).(*AggV)
	tt := r.eng.tt
	var res *Term
	for i := p.SymLen - 1; i >= 0; i-- {
		el, ok := arr.E[p.SymBase+i].(*Term)
		if !ok {
			r.unsupported("symbolic-index load of non-scalar")
		}
		if res == nil {
			res = el
			continue
		}
		res = tt.Ite(tt.Eq(p.Sym, tt.Const(p.Sym.W, uint64(i))), el, res)
	}
	if res == nil {
		r.goPanic("index out of range (empty)")
	}
	return res
}

func (r *Run) concretePtr(p PtrV) PtrV {
	if p.Sym == nil {
		return p
	}
	i := r.Concretize(p.Sym, 0, int64(p.SymLen-1), false)
	return PtrV{Obj: p.Obj, Path: appendPath(p.Path, p.SymBase+int(i))}
}

func (r *Run) store(p PtrV, v Value) {
	if p.Obj == nil {
		r.goPanic("nil pointer dereference (store)")
	}
	p = r.concretePtr(p)
	r.checkWritable(p.Obj)
	p.Obj.Val = withNode(p.Obj.Val, p.Path, v)
}

// sliceElems returns the elements a slice views.
func (r *Run) sliceElems(s SliceV) []Value {
	if s.Obj == nil || s.Len == 0 {
		return nil
	}
	arr := nodeAt(s.Obj.Val, s.Path).(*AggV)
	return arr.E[s.Off : s.Off+s.Len]
}

func (r *Run) newArrayObject(elem types.Type, n int, init []Value) *Object {
	es := make([]Value, n)
	var z Value
	for i := range es {
		if i < len(init) {
			es[i] = init[i]
		} else {
			if z == nil {
				z = r.eng.zero(elem)
			}
			es[i] = z
		}
	}
	return r.eng.newObject(types.NewArray(elem, int64(n)), &AggV{E: es})
}

// writeElems stores vals at arr[off..] in one path-copy.
func (r *Run) writeElems(obj *Object, path []int, off int, vals []Value) {
	if len(vals) == 0 {
		return
	}
	r.checkWritable(obj)
	arr := nodeAt(obj.Val, path).(*AggV)
	es := make([]Value, len(arr.E))
	copy(es, arr.E)
	copy(es[off:], vals)
	obj.Val = withNode(obj.Val, path, &AggV{E: es})
}

// ---- integer helpers

// toInt returns a concrete int for a term, forking over [lo,hi] when symbolic.
// Values outside the range make the path panic with msg.
func (r *Run) toIndex(v Value, hi int, what string) int {
	t := v.(*Term)
	tt := r.eng.tt
	t64 := t
	if t.W != 64 {
		t64 = tt.Resize(t, 64, false)
	}
	if t64.IsConst() {
		i := int64(t64.K)
		if i < 0 || i > int64(hi) {
			r.goPanic("%s out of range [%d] with bound %d", what, i, hi)
		}
		return int(i)
	}
	r.oblige(tt.Ult(tt.Const(64, uint64(hi)), t64), "%s out of range (symbolic) with bound %d", what, hi)
	return int(r.Concretize(t64, 0, int64(hi), false))
}

func (r *Run) intOfValue(v Value, t types.Type) *Term {
	x, ok := v.(*Term)
	if !ok {
		r.unsupported("expected integer, got %T", v)
	}
	return x
}

// ---- equality

func (r *Run) eqValue(a, b Value, t types.Type) *Term {
	tt := r.eng.tt
	switch x := a.(type) {
	case *Term:
		return tt.Eq(x, b.(*Term))
	case StrV:
		y := b.(StrV)
		if x.Opaque && x.NonEmpty && !y.Opaque && len(y.B) == 0 {
			return tt.False
		}
		if y.Opaque && y.NonEmpty && !x.Opaque && len(x.B) == 0 {
			return tt.False
		}
		if x.Opaque || y.Opaque {
			r.unsupported("comparison of opaque string")
		}
		if len(x.B) != len(y.B) {
			return tt.False
		}
		c := tt.True
		for i := range x.B {
			c = tt.And(c, tt.Eq(x.B[i], y.B[i]))
		}
		return c
	case PtrV:
		y := b.(PtrV)
		if x.Sym != nil || y.Sym != nil {
			r.unsupported("comparison of symbolic pointer")
		}
		return tt.Bool(x.Obj == y.Obj && samePath(x.Path, y.Path))
	case *AggV:
		y := b.(*AggV)
		c := tt.True
		switch u := t.Underlying().(type) {
		case *types.Struct:
			for i := range x.E {
				if u.Field(i).Name() == "_" {
					continue
				}
				c = tt.And(c, r.eqValue(x.E[i], y.E[i], u.Field(i).Type()))
			}
		case *types.Array:
			for i := range x.E {
				c = tt.And(c, r.eqValue(x.E[i], y.E[i], u.Elem()))
			}
		default:
			r.unsupported("eq on aggregate of type %s", t)
		}
		return c
	case IfaceV:
		y := b.(IfaceV)
		if x.T == nil || y.T == nil {
			return tt.Bool(x.T == nil && y.T == nil)
		}
		if !types.Identical(x.T, y.T) {
			return tt.False
		}
		if !types.Comparable(x.T) {
			r.goPanic("comparing uncomparable type %s", x.T)
		}
		return r.eqValue(x.V, y.V, x.T)
	case *MapObj:
		y := b.(*MapObj)
		return tt.Bool(x == y)
	case SliceV:
		y := b.(SliceV)
		return tt.Bool(x.Obj == nil && y.Obj == nil)
	case FuncV:
		y := b.(FuncV)
		return tt.Bool(x.IsNil() && y.IsNil())
	case FloatV:
		return tt.Bool(x.F == b.(FloatV).F)
	case nil:
		return tt.Bool(b == nil)
	}
	r.unsupported("eq on %T", a)
	return nil
}

func (r *Run) strLess(a, b StrV, orEqual bool) *Term {
	tt := r.eng.tt
	if a.Opaque || b.Opaque {
		r.unsupported("ordering of opaque string")
	}
	n := len(a.B)
	if len(b.B) < n {
		n = len(b.B)
	}
	var tail *Term
	if len(a.B) < len(b.B) {
		tail = tt.True
	} else if len(a.B) == len(b.B) {
		tail = tt.Bool(orEqual)
	} else {
		tail = tt.False
	}
	res := tail
	for i := n - 1; i >= 0; i-- {
		res = tt.Ite(tt.Ult(a.B[i], b.B[i]), tt.True, tt.Ite(tt.Ult(b.B[i], a.B[i]), tt.False, res))
	}
	return res
}

// ---- operators

func (r *Run) binop(op token.Token, x, y Value, xt, yt types.Type) Value {
	tt := r.eng.tt
	switch op {
	case token.EQL:
		return r.eqValue(x, y, xt)
	case token.NEQ:
		return tt.Not(r.eqValue(x, y, xt))
	}
	if xs, ok := x.(StrV); ok {
		ys := y.(StrV)
		switch op {
		case token.ADD:
			if len(xs.B) == 0 && !xs.Opaque {
				return ys
			}
			if len(ys.B) == 0 && !ys.Opaque {
				return xs
			}
			nb := make([]*Term, 0, len(xs.B)+len(ys.B))
			nb = append(nb, xs.B...)
			nb = append(nb, ys.B...)
			return StrV{B: nb, Opaque: xs.Opaque || ys.Opaque, NonEmpty: (xs.Opaque || ys.Opaque) && (xs.NonEmpty || ys.NonEmpty || len(nb) > 0)}
		case token.LSS:
			return r.strLess(xs, ys, false)
		case token.LEQ:
			return r.strLess(xs, ys, true)
		case token.GTR:
			return r.strLess(ys, xs, false)
		case token.GEQ:
			return r.strLess(ys, xs, true)
		}
		r.unsupported("string op %s", op)
	}
	if xf, ok := x.(FloatV); ok {
		yf := y.(FloatV)
		switch op {
		case token.ADD:
			return FloatV{xf.F + yf.F}
		case token.SUB:
			return FloatV{xf.F - yf.F}
		case token.MUL:
			return FloatV{xf.F * yf.F}
		case token.QUO:
			return FloatV{xf.F / yf.F}
		case token.LSS:
			return tt.Bool(xf.F < yf.F)
		case token.LEQ:
			return tt.Bool(xf.F <= yf.F)
		case token.GTR:
			return tt.Bool(xf.F > yf.F)
		case token.GEQ:
			return tt.Bool(xf.F >= yf.F)
		}
		r.unsupported("float op %s", op)
	}
	a, ok1 := x.(*Term)
	b, ok2 := y.(*Term)
	if !ok1 || !ok2 {
		r.unsupported("binop %s on %T,%T", op, x, y)
	}
	w, signed, _ := intInfo(xt)
	if a.W == 0 {
		// booleans
		switch op {
		case token.AND:
			return tt.And(a, b)
		case token.OR:
			return tt.Or(a, b)
		case token.XOR:
			return tt.Not(tt.Eq(a, b))
		case token.AND_NOT:
			return tt.And(a, tt.Not(b))
		}
		r.unsupported("bool op %s", op)
	}
	switch op {
	case token.ADD:
		return tt.Bin(OpAdd, a, b)
	case token.SUB:
		return tt.Bin(OpSub, a, b)
	case token.MUL:
		return tt.Bin(OpMul, a, b)
	case token.QUO, token.REM:
		r.oblige(tt.Eq(b, tt.Const(b.W, 0)), "integer divide by zero")
		if signed {
			if op == token.QUO {
				return tt.Bin(OpSdiv, a, b)
			}
			return tt.Bin(OpSrem, a, b)
		}
		if op == token.QUO {
			return tt.Bin(OpUdiv, a, b)
		}
		return tt.Bin(OpUrem, a, b)
	case token.AND:
		return tt.Bin(OpBvAnd, a, b)
	case token.OR:
		return tt.Bin(OpBvOr, a, b)
	case token.XOR:
		return tt.Bin(OpBvXor, a, b)
	case token.AND_NOT:
		return tt.Bin(OpBvAnd, a, tt.BvNot(b))
	case token.SHL, token.SHR:
		_, ysigned, _ := intInfo(yt)
		if ysigned {
			r.oblige(tt.Slt(b, tt.Const(b.W, 0)), "negative shift amount")
		}
		// Bring the count to the operand width, saturating.
		var cnt *Term
		if b.W == w {
			cnt = b
		} else if b.W < w {
			cnt = tt.Resize(b, w, false)
		} else {
			big := tt.Ule(tt.Const(b.W, uint64(w)), b)
			cnt = tt.Ite(big, tt.Const(w, uint64(w)), tt.Resize(b, w, false))
		}
		if op == token.SHL {
			return tt.Bin(OpShl, a, cnt)
		}
		if signed {
			return tt.Bin(OpAshr, a, cnt)
		}
		return tt.Bin(OpLshr, a, cnt)
	case token.LSS:
		if signed {
			return tt.Slt(a, b)
		}
		return tt.Ult(a, b)
	case token.LEQ:
		if signed {
			return tt.Sle(a, b)
		}
		return tt.Ule(a, b)
	case token.GTR:
		if signed {
			return tt.Slt(b, a)
		}
		return tt.Ult(b, a)
	case token.GEQ:
		if signed {
			return tt.Sle(b, a)
		}
		return tt.Ule(b, a)
	}
	r.unsupported("binop %s", op)
	return nil
}

func (r *Run) convert(v Value, from, to types.Type) Value {
	tt := r.eng.tt
	fu, tu := from.Underlying(), to.Underlying()
	if fw, fsigned, ok := intInfo(from); ok {
		if tw, _, ok2 := intInfo(to); ok2 {
			if fw == 0 || tw == 0 {
				return v
			}
			return tt.Resize(v.(*Term), tw, fsigned)
		}
		if isStringType(to) {
			// string(rune)
			t := v.(*Term)
			t64 := tt.Resize(t, 64, fsigned)
			if !t64.IsConst() {
				if !r.Branch(tt.Ult(t64, tt.Const(64, 0x80))) {
					r.unsupported("string(rune) of symbolic non-ASCII rune")
				}
				return StrV{B: []*Term{tt.Resize(t64, 8, false)}}
			}
			return r.eng.strConst(string(rune(int64(t64.K))))
		}
		if isFloatType(to) {
			t := v.(*Term)
			if t.IsConst() {
				if fsigned {
					return FloatV{F: float64(sext64(t.K, t.W))}
				}
				return FloatV{F: float64(t.K)}
			}
			r.unsupported("int to float of symbolic value")
		}
		if b, ok := tu.(*types.Basic); ok && b.Kind() == types.UnsafePointer {
			r.unsupported("uintptr to unsafe.Pointer")
		}
	}
	if isFloatType(from) {
		f := v.(FloatV)
		if isFloatType(to) {
			return f
		}
		if tw, _, ok := intInfo(to); ok {
			return tt.Const(tw, uint64(int64(f.F)))
		}
	}
	if isStringType(from) {
		s := v.(StrV)
		if sl, ok := tu.(*types.Slice); ok {
			if s.Opaque {
				r.unsupported("[]byte(opaque string)")
			}
			if b, ok := sl.Elem().Underlying().(*types.Basic); ok && b.Kind() == types.Uint8 {
				vals := make([]Value, len(s.B))
				for i, x := range s.B {
					vals[i] = x
				}
				obj := r.newArrayObject(sl.Elem(), len(vals), vals)
				return SliceV{Obj: obj, Len: len(vals), Cap: len(vals)}
			}
			// []rune(s)
			var vals []Value
			pos := 0
			for pos < len(s.B) {
				rn, wid := r.decodeRune(s, pos)
				vals = append(vals, rn)
				pos += wid
			}
			obj := r.newArrayObject(sl.Elem(), len(vals), vals)
			return SliceV{Obj: obj, Len: len(vals), Cap: len(vals)}
		}
		if isStringType(to) {
			return v
		}
	}
	if sl, ok := fu.(*types.Slice); ok && isStringType(to) {
		s := v.(SliceV)
		elems := r.sliceElems(s)
		if b, ok := sl.Elem().Underlying().(*types.Basic); ok && b.Kind() == types.Uint8 {
			bs := make([]*Term, len(elems))
			for i, x := range elems {
				bs[i] = x.(*Term)
			}
			return StrV{B: bs}
		}
		// string([]rune)
		var bs []*Term
		for _, x := range elems {
			t := x.(*Term)
			if t.IsConst() {
				for _, c := range []byte(string(rune(int32(t.K)))) {
					bs = append(bs, tt.Const(8, uint64(c)))
				}
				continue
			}
			if !r.Branch(tt.Ult(tt.Resize(t, 64, false), tt.Const(64, 0x80))) {
				r.unsupported("string([]rune) of symbolic non-ASCII rune")
			}
			bs = append(bs, tt.Resize(t, 8, false))
		}
		return StrV{B: bs}
	}
	if types.Identical(fu, tu) {
		return v
	}
	if _, ok := fu.(*types.Pointer); ok {
		if _, ok := tu.(*types.Pointer); ok {
			return v
		}
	}
	r.unsupported("convert %s -> %s", from, to)
	return nil
}

// decodeRune decodes the rune at s[pos:], forking on the byte classes.
func (r *Run) decodeRune(s StrV, pos int) (*Term, int) {
	tt := r.eng.tt
	if s.Opaque {
		r.unsupported("decode of opaque string")
	}
	b0 := s.B[pos]
	if r.Branch(tt.Ult(b0, tt.Const(8, 0x80))) {
		return tt.Resize(b0, 32, false), 1
	}
	res := inDecodeRuneInString(r, nil, []Value{StrV{B: s.B[pos:]}}).(TupleV)
	wid := res[1].(*Term)
	if !wid.IsConst() {
		r.unsupported("symbolic rune width")
	}
	return res[0].(*Term), int(wid.K)
}

// ---- calls

func (r *Run) callValue(fv Value, args []Value) Value {
	f, ok := fv.(FuncV)
	if !ok {
		r.unsupported("call of %T", fv)
	}
	if f.Native != nil {
		return f.Native(r, args)
	}
	if f.Builtin != nil {
		r.unsupported("indirect builtin call")
	}
	if f.Fn == nil {
		r.goPanic("call of nil function")
	}
	return r.callFunction(f.Fn, args, f.Env)
}

func funcKey(fn *ssa.Function) string {
	if o := fn.Origin(); o != nil {
		return o.String()
	}
	return fn.String()
}

func (r *Run) callFunction(fn *ssa.Function, args []Value, env []Value) Value {
	key := funcKey(fn)
	if fn.Synthetic == "package initializer" {
		return nil // dependencies are initialised on demand
	}
	if in, ok := intrinsics[key]; ok {
		r.res.Stubs[key]++
		return in(r, fn, args)
	}
	if fn.Pkg != nil {
		if h, ok := harnessRT[fn.Name()]; ok && r.eng.isHarnessRT(fn) {
			return h(r, fn, args)
		}
	}
	if len(fn.Blocks) == 0 {
		r.unsupported("external function without body: %s", key)
	}
	if r.eng.summarise[key] || r.eng.summarise[fn.Name()] {
		if v, ok := r.summarise(func() Value { return r.interpret(fn, args, env) }, key, args, env); ok {
			return v
		}
	}
	return r.interpret(fn, args, env)
}

func (r *Run) interpret(fn *ssa.Function, args []Value, env []Value) Value {
	if len(fn.Blocks) == 0 {
		r.unsupported("no body: %s", fn)
	}
	r.eng.ensureInit(r, fn.Pkg)
	if r.depth >= r.maxDepth {
		r.end(OutUnwind, r.curPos(), "call depth %d exceeded in %s", r.maxDepth, fn)
	}
	if r.res != nil && r.eng.recordFuncs {
		if fn.Pkg != nil && strings.HasPrefix(fn.Pkg.Pkg.Path(), "deps.dev/") {
			r.res.Functions[fn.String()]++
		}
	}
	f := &frame{fn: fn, locals: make(map[ssa.Value]Value, 16), env: env, visits: map[int]int{}}
	for i, p := range fn.Params {
		if i >= len(args) {
			panic(fmt.Sprintf("too few args calling %s", fn))
		}
		f.locals[p] = args[i]
	}
	r.frames = append(r.frames, f)
	r.depth++
	nframes := len(r.frames)
	ret := r.exec(f)
	r.frames = r.frames[:nframes-1]
	r.depth--
	return ret
}

func (r *Run) exec(f *frame) Value {
	f.block = f.fn.Blocks[0]
	for {
		f.visits[f.block.Index]++
		if f.visits[f.block.Index] > r.unwind {
			r.end(OutUnwind, r.curPos(), "loop unwind limit %d exceeded in %s block %d", r.unwind, f.fn, f.block.Index)
		}
		// Phis first (simultaneous).
		instrs := f.block.Instrs
		i := 0
		if f.skipPhis {
			f.skipPhis = false
			for i < len(instrs) {
				if _, ok := instrs[i].(*ssa.Phi); !ok {
					break
				}
				i++
			}
		} else if f.prev != nil {
			var phiVals []Value
			var edge = -1
			for j, p := range f.block.Preds {
				if p == f.prev {
					edge = j
					break
				}
			}
			for ; i < len(instrs); i++ {
				phi, ok := instrs[i].(*ssa.Phi)
				if !ok {
					break
				}
				phiVals = append(phiVals, r.get(f, phi.Edges[edge]))
			}
			for j := 0; j < i; j++ {
				f.locals[instrs[j].(*ssa.Phi)] = phiVals[j]
			}
		}
		var next *ssa.BasicBlock
		var mergedFrom *ssa.BasicBlock
		for ; i < len(instrs); i++ {
			r.steps++
			if r.steps > r.maxSteps {
				r.end(OutUnwind, r.curPos(), "step budget %d exceeded", r.maxSteps)
			}
			if r.steps&0xfff == 0 && r.eng.deadlineExceeded() {
				r.end(OutBudget, r.curPos(), "time budget exhausted")
			}
			ins := instrs[i]
			if p := ins.Pos(); p.IsValid() {
				f.pos = p
			}
			switch x := ins.(type) {
			case *ssa.Return:
				switch len(x.Results) {
				case 0:
					return nil
				case 1:
					return r.get(f, x.Results[0])
				}
				tv := make(TupleV, len(x.Results))
				for k, rv := range x.Results {
					tv[k] = r.get(f, rv)
				}
				return tv
			case *ssa.Jump:
				next = f.block.Succs[0]
			case *ssa.If:
				c := r.get(f, x.Cond).(*Term)
				if !c.IsConst() && !r.initMode {
					if alts, ok := r.tryMerge(f, f.block, c); ok {
						chosen := len(alts) - 1
						for k := 0; k < len(alts)-1; k++ {
							if r.Branch(alts[k].pred) {
								chosen = k
								break
							}
						}
						a := alts[chosen]
						next = a.target
						if a.merged {
							for pi, phi := range a.phis {
								f.locals[phi] = a.vals[pi]
							}
							f.skipPhis = true
						} else {
							mergedFrom = a.from
						}
						break
					}
				}
				if r.Branch(c) {
					next = f.block.Succs[0]
				} else {
					next = f.block.Succs[1]
				}
			case *ssa.Panic:
				v := r.get(f, x.X)
				r.goPanic("panic: %s", r.describePanic(v))
			default:
				if r.initMode {
					r.stepTolerant(f, ins)
				} else {
					r.step(f, ins)
				}
			}
		}
		if next == nil {
			panic("block fell through in " + f.fn.String())
		}
		f.prev = f.block
		if mergedFrom != nil {
			f.prev = mergedFrom
		}
		f.block = next
	}
}

// stepTolerant is used while running package initialisers: an instruction the
// engine cannot execute leaves a zero value behind instead of ending the run.
func (r *Run) stepTolerant(f *frame, ins ssa.Instruction) {
	defer func() {
		if x := recover(); x != nil {
			pe, ok := x.(pathEnd)
			if !ok || (pe.kind != OutUnsupported && pe.kind != OutPanic) {
				panic(x)
			}
			if v, ok := ins.(ssa.Value); ok {
				func() {
					defer func() { recover() }()
					f.locals[v] = r.eng.zero(v.Type())
				}()
			}
			if os.Getenv("GOSYM_DEBUG_INIT") != "" {
				fmt.Fprintf(os.Stderr, "init: skipped %s in %s: %s\n", ins, f.fn, pe.msg)
			}
		}
	}()
	r.step(f, ins)
}

func (r *Run) describePanic(v Value) string {
	if iv, ok := v.(IfaceV); ok {
		if s, ok := iv.V.(StrV); ok {
			if cs, ok := concreteString(s); ok {
				return cs
			}
		}
		if iv.T != nil {
			return "value of type " + iv.T.String() + " " + showValue(iv.V)
		}
	}
	return showValue(v)
}

func (r *Run) step(f *frame, ins ssa.Instruction) {
	e := r.eng
	tt := e.tt
	switch x := ins.(type) {
	case *ssa.Alloc:
		et := x.Type().Underlying().(*types.Pointer).Elem()
		obj := e.newObject(et, e.zero(et))
		f.locals[x] = PtrV{Obj: obj}
	case *ssa.BinOp:
		f.locals[x] = r.binop(x.Op, r.get(f, x.X), r.get(f, x.Y), x.X.Type(), x.Y.Type())
	case *ssa.UnOp:
		v := r.get(f, x.X)
		switch x.Op {
		case token.MUL:
			f.locals[x] = r.load(v.(PtrV))
		case token.NOT:
			f.locals[x] = tt.Not(v.(*Term))
		case token.SUB:
			if fv, ok := v.(FloatV); ok {
				f.locals[x] = FloatV{-fv.F}
			} else {
				f.locals[x] = tt.Neg(v.(*Term))
			}
		case token.XOR:
			f.locals[x] = tt.BvNot(v.(*Term))
		default:
			r.unsupported("unop %s", x.Op)
		}
	case *ssa.Call:
		f.locals[x] = r.call(f, x.Common(), x)
	case *ssa.ChangeInterface:
		f.locals[x] = r.get(f, x.X)
	case *ssa.ChangeType:
		f.locals[x] = r.get(f, x.X)
	case *ssa.Convert:
		f.locals[x] = r.convert(r.get(f, x.X), x.X.Type(), x.Type())
	case *ssa.Extract:
		f.locals[x] = r.get(f, x.Tuple).(TupleV)[x.Index]
	case *ssa.Field:
		f.locals[x] = r.get(f, x.X).(*AggV).E[x.Field]
	case *ssa.FieldAddr:
		p := r.get(f, x.X).(PtrV)
		if p.Obj == nil {
			r.goPanic("nil pointer dereference (field %d)", x.Field)
		}
		p = r.concretePtr(p)
		f.locals[x] = PtrV{Obj: p.Obj, Path: appendPath(p.Path, x.Field)}
	case *ssa.Index:
		xv := r.get(f, x.X)
		switch a := xv.(type) {
		case *AggV:
			f.locals[x] = r.indexValues(a.E, r.get(f, x.Index), "array index")
		case StrV:
			f.locals[x] = r.indexString(a, r.get(f, x.Index))
		default:
			r.unsupported("Index on %T", xv)
		}
	case *ssa.IndexAddr:
		f.locals[x] = r.indexAddr(f, x)
	case *ssa.Lookup:
		xv := r.get(f, x.X)
		if s, ok := xv.(StrV); ok {
			f.locals[x] = r.indexString(s, r.get(f, x.Index))
		} else {
			m := xv.(*MapObj)
			mt := x.X.Type().Underlying().(*types.Map)
			f.locals[x] = r.mapLookup(m, r.get(f, x.Index), mt, x.CommaOk)
		}
	case *ssa.MakeClosure:
		env := make([]Value, len(x.Bindings))
		for i, b := range x.Bindings {
			env[i] = r.get(f, b)
		}
		f.locals[x] = FuncV{Fn: x.Fn.(*ssa.Function), Env: env}
	case *ssa.MakeInterface:
		f.locals[x] = IfaceV{T: x.X.Type(), V: r.get(f, x.X)}
	case *ssa.MakeMap:
		mt := x.Type().Underlying().(*types.Map)
		f.locals[x] = e.newMap(mt.Key(), mt.Elem())
	case *ssa.MakeSlice:
		st := x.Type().Underlying().(*types.Slice)
		n := r.toIndex(r.get(f, x.Len), 1<<20, "makeslice len")
		c := r.toIndex(r.get(f, x.Cap), 1<<20, "makeslice cap")
		if n > c {
			r.goPanic("makeslice: len %d > cap %d", n, c)
		}
		obj := r.newArrayObject(st.Elem(), c, nil)
		f.locals[x] = SliceV{Obj: obj, Len: n, Cap: c}
	case *ssa.MapUpdate:
		m := r.get(f, x.Map).(*MapObj)
		if m == nil {
			r.goPanic("assignment to entry in nil map")
		}
		r.mapUpdate(m, r.get(f, x.Key), r.get(f, x.Value))
	case *ssa.Range:
		xv := r.get(f, x.X)
		switch a := xv.(type) {
		case StrV:
			s := a
			f.locals[x] = &IterV{Str: &s}
		case *MapObj:
			it := &IterV{Map: a}
			if a != nil {
				it.Keys = append([]Value(nil), a.Keys...)
				it.Vals = append([]Value(nil), a.Vals...)
				if r.job.MapPermutations && len(it.Keys) > 1 && len(it.Keys) <= 3 {
					r.permute(it)
				}
			}
			f.locals[x] = it
		default:
			r.unsupported("range over %T", xv)
		}
	case *ssa.Next:
		it := r.get(f, x.Iter).(*IterV)
		f.locals[x] = r.iterNext(it, x)
	case *ssa.Slice:
		f.locals[x] = r.sliceOp(f, x)
	case *ssa.Store:
		r.store(r.get(f, x.Addr).(PtrV), r.get(f, x.Val))
	case *ssa.TypeAssert:
		f.locals[x] = r.typeAssert(r.get(f, x.X).(IfaceV), x)
	case *ssa.Defer:
		c := x.Common()
		d := deferred{}
		for _, a := range c.Args {
			d.args = append(d.args, r.get(f, a))
		}
		if c.IsInvoke() {
			d.inv = c
			d.fn = r.get(f, c.Value)
		} else {
			d.fn = r.get(f, c.Value)
		}
		f.defers = append(f.defers, d)
	case *ssa.RunDefers:
		for len(f.defers) > 0 {
			d := f.defers[len(f.defers)-1]
			f.defers = f.defers[:len(f.defers)-1]
			if d.inv != nil {
				r.invoke(d.fn.(IfaceV), d.inv.Method, d.args)
			} else if fv, ok := d.fn.(FuncV); ok && fv.Builtin != nil {
				r.callBuiltin(fv.Builtin, d.args, nil)
			} else {
				r.callValue(d.fn, d.args)
			}
		}
	case *ssa.DebugRef:
	case *ssa.SliceToArrayPointer:
		s := r.get(f, x.X).(SliceV)
		at := x.Type().Underlying().(*types.Pointer).Elem().Underlying().(*types.Array)
		if int(at.Len()) > s.Len {
			r.goPanic("slice to array pointer: length mismatch")
		}
		if s.Obj == nil {
			f.locals[x] = PtrV{}
		} else if s.Off == 0 {
			f.locals[x] = PtrV{Obj: s.Obj, Path: s.Path}
		} else {
			r.unsupported("slice to array pointer at non-zero offset")
		}
	case *ssa.Go:
		r.unsupported("go statement")
	case *ssa.Select:
		r.unsupported("select")
	case *ssa.Send:
		r.unsupported("channel send")
	case *ssa.MakeChan:
		r.unsupported("make chan")
	default:
		r.unsupported("instruction %T", ins)
	}
}

func (r *Run) indexValues(es []Value, idx Value, what string) Value {
	tt := r.eng.tt
	it := tt.Resize(idx.(*Term), 64, false)
	if it.IsConst() {
		i := int64(it.K)
		if i < 0 || i >= int64(len(es)) {
			r.goPanic("%s out of range [%d] with length %d", what, i, len(es))
		}
		return es[i]
	}
	r.oblige(tt.Ule(tt.Const(64, uint64(len(es))), it), "%s out of range (symbolic) with length %d", what, len(es))
	if len(es) > 0 {
		if _, ok := es[0].(*Term); ok {
			var res *Term
			for i := len(es) - 1; i >= 0; i-- {
				el := es[i].(*Term)
				if res == nil {
					res = el
				} else {
					res = tt.Ite(tt.Eq(it, tt.Const(64, uint64(i))), el, res)
				}
			}
			return res
		}
	}
	i := r.Concretize(it, 0, int64(len(es)-1), false)
	return es[i]
}

func (r *Run) indexString(s StrV, idx Value) Value {
	if s.Opaque {
		r.unsupported("index of opaque string")
	}
	vals := make([]Value, len(s.B))
	for i, b := range s.B {
		vals[i] = b
	}
	return r.indexValues(vals, idx, "string index")
}

func (r *Run) indexAddr(f *frame, x *ssa.IndexAddr) Value {
	tt := r.eng.tt
	xv := r.get(f, x.X)
	idx := tt.Resize(r.get(f, x.Index).(*Term), 64, false)
	var obj *Object
	var path []int
	var off, n int
	var elemT types.Type
	switch a := xv.(type) {
	case SliceV:
		obj, path, off, n = a.Obj, a.Path, a.Off, a.Len
		elemT = x.X.Type().Underlying().(*types.Slice).Elem()
	case PtrV:
		if a.Obj == nil {
			r.goPanic("nil pointer dereference (index)")
		}
		a = r.concretePtr(a)
		at := x.X.Type().Underlying().(*types.Pointer).Elem().Underlying().(*types.Array)
		obj, path, off, n = a.Obj, a.Path, 0, int(at.Len())
		elemT = at.Elem()
	default:
		r.unsupported("IndexAddr on %T", xv)
	}
	if idx.IsConst() {
		i := int64(idx.K)
		if i < 0 || i >= int64(n) {
			r.goPanic("index out of range [%d] with length %d", i, n)
		}
		return PtrV{Obj: obj, Path: appendPath(path, off+int(i))}
	}
	r.oblige(tt.Ule(tt.Const(64, uint64(n)), idx), "index out of range (symbolic) with length %d", n)
	if isScalarType(elemT) && n > 1 {
		return PtrV{Obj: obj, Path: path, Sym: idx, SymBase: off, SymLen: n}
	}
	i := r.Concretize(idx, 0, int64(n-1), false)
	return PtrV{Obj: obj, Path: appendPath(path, off+int(i))}
}

func (r *Run) sliceOp(f *frame, x *ssa.Slice) Value {
	xv := r.get(f, x.X)
	bound := func(v ssa.Value, def, hi int, what string) int {
		if v == nil {
			return def
		}
		return r.toIndex(r.get(f, v), hi, what)
	}
	switch a := xv.(type) {
	case StrV:
		if a.Opaque {
			r.unsupported("slice of opaque string")
		}
		lo := bound(x.Low, 0, len(a.B), "slice bounds (low)")
		hi := bound(x.High, len(a.B), len(a.B), "slice bounds (high)")
		if lo > hi {
			r.goPanic("slice bounds out of range [%d:%d]", lo, hi)
		}
		return StrV{B: a.B[lo:hi]}
	case SliceV:
		lo := bound(x.Low, 0, a.Cap, "slice bounds (low)")
		hi := bound(x.High, a.Len, a.Cap, "slice bounds (high)")
		mx := bound(x.Max, a.Cap, a.Cap, "slice bounds (max)")
		if lo > hi || hi > mx {
			r.goPanic("slice bounds out of range [%d:%d:%d]", lo, hi, mx)
		}
		if a.Obj == nil {
			return SliceV{}
		}
		return SliceV{Obj: a.Obj, Path: a.Path, Off: a.Off + lo, Len: hi - lo, Cap: mx - lo}
	case PtrV:
		if a.Obj == nil {
			r.goPanic("nil pointer dereference (slice of array)")
		}
		a = r.concretePtr(a)
		at := x.X.Type().Underlying().(*types.Pointer).Elem().Underlying().(*types.Array)
		n := int(at.Len())
		lo := bound(x.Low, 0, n, "slice bounds (low)")
		hi := bound(x.High, n, n, "slice bounds (high)")
		mx := bound(x.Max, n, n, "slice bounds (max)")
		if lo > hi || hi > mx {
			r.goPanic("slice bounds out of range [%d:%d:%d]", lo, hi, mx)
		}
		return SliceV{Obj: a.Obj, Path: a.Path, Off: lo, Len: hi - lo, Cap: mx - lo}
	}
	r.unsupported("Slice on %T", xv)
	return nil
}

func (r *Run) typeAssert(iv IfaceV, x *ssa.TypeAssert) Value {
	tt := r.eng.tt
	var ok bool
	var res Value
	if it, isIface := x.AssertedType.Underlying().(*types.Interface); isIface {
		ok = iv.T != nil && types.Implements(iv.T, it)
		if ok {
			res = iv
		} else {
			res = IfaceV{}
		}
	} else {
		ok = iv.T != nil && types.Identical(iv.T, x.AssertedType)
		if ok {
			res = iv.V
		} else {
			res = r.eng.zero(x.AssertedType)
		}
	}
	if x.CommaOk {
		return TupleV{res, tt.Bool(ok)}
	}
	if !ok {
		if iv.T == nil {
			r.goPanic("interface conversion: interface is nil, not %s", x.AssertedType)
		}
		r.goPanic("interface conversion: interface is %s, not %s", iv.T, x.AssertedType)
	}
	return res
}

func (r *Run) invoke(recv IfaceV, m *types.Func, args []Value) Value {
	if recv.T == nil {
		r.goPanic("nil interface method call %s", m.Name())
	}
	fn := r.eng.prog.LookupMethod(recv.T, m.Pkg(), m.Name())
	if fn == nil {
		r.unsupported("method %s not found on %s", m.Name(), recv.T)
	}
	all := make([]Value, 0, len(args)+1)
	all = append(all, recv.V)
	all = append(all, args...)
	return r.callFunction(fn, all, nil)
}

func (r *Run) call(f *frame, c *ssa.CallCommon, site *ssa.Call) Value {
	args := make([]Value, len(c.Args))
	for i, a := range c.Args {
		args[i] = r.get(f, a)
	}
	if c.IsInvoke() {
		recv := r.get(f, c.Value).(IfaceV)
		return r.invoke(recv, c.Method, args)
	}
	switch fn := c.Value.(type) {
	case *ssa.Builtin:
		return r.callBuiltin(fn, args, c)
	case *ssa.Function:
		return r.callFunction(fn, args, nil)
	}
	return r.callValue(r.get(f, c.Value), args)
}

// ---- maps

func sameValue(a, b Value) bool {
	switch x := a.(type) {
	case *Term:
		y, ok := b.(*Term)
		return ok && x == y
	case StrV:
		y, ok := b.(StrV)
		if !ok || len(x.B) != len(y.B) {
			return false
		}
		for i := range x.B {
			if x.B[i] != y.B[i] {
				return false
			}
		}
		return true
	case *AggV:
		y, ok := b.(*AggV)
		if !ok || len(x.E) != len(y.E) {
			return false
		}
		for i := range x.E {
			if !sameValue(x.E[i], y.E[i]) {
				return false
			}
		}
		return true
	case PtrV:
		y, ok := b.(PtrV)
		return ok && x.Obj == y.Obj && samePath(x.Path, y.Path) && x.Sym == y.Sym
	case IfaceV:
		y, ok := b.(IfaceV)
		if !ok {
			return false
		}
		if x.T == nil || y.T == nil {
			return x.T == nil && y.T == nil
		}
		return types.Identical(x.T, y.T) && sameValue(x.V, y.V)
	}
	return false
}

func (r *Run) mapLookup(m *MapObj, key Value, mt *types.Map, commaOk bool) Value {
	tt := r.eng.tt
	zero := r.eng.zero(mt.Elem())
	ret := func(v Value, ok *Term) Value {
		if commaOk {
			return TupleV{v, ok}
		}
		return v
	}
	if m != nil && r.shareAt > 0 && m.ID <= r.shareAt {
		r.noteSharedRead(m.ID)
	}
	if m == nil || len(m.Keys) == 0 {
		return ret(zero, tt.False)
	}
	conds := make([]*Term, len(m.Keys))
	allConst := true
	for i, k := range m.Keys {
		conds[i] = r.eqValue(key, k, mt.Key())
		if conds[i].IsTrue() {
			return ret(m.Vals[i], tt.True)
		}
		if !conds[i].IsConst() {
			allConst = false
		}
	}
	if allConst {
		return ret(zero, tt.False)
	}
	if zt, ok := zero.(*Term); ok {
		res := zt
		okT := tt.False
		for i := len(conds) - 1; i >= 0; i-- {
			if conds[i].IsFalse() {
				continue
			}
			res = tt.Ite(conds[i], m.Vals[i].(*Term), res)
			okT = tt.Or(okT, conds[i])
		}
		return ret(res, okT)
	}
	for i, c := range conds {
		if c.IsFalse() {
			continue
		}
		if r.Branch(c) {
			return ret(m.Vals[i], tt.True)
		}
	}
	return ret(zero, tt.False)
}

func (r *Run) mapUpdate(m *MapObj, key, val Value) {
	r.checkMapWritable(m)
	for i, k := range m.Keys {
		c := r.eqValue(key, k, m.KT)
		if c.IsFalse() {
			continue
		}
		if r.Branch(c) {
			m.Vals[i] = val
			return
		}
	}
	m.Keys = append(m.Keys, key)
	m.Vals = append(m.Vals, val)
}

func (r *Run) mapDelete(m *MapObj, key Value) {
	if m == nil {
		return
	}
	r.checkMapWritable(m)
	for i, k := range m.Keys {
		c := r.eqValue(key, k, m.KT)
		if c.IsFalse() {
			continue
		}
		if r.Branch(c) {
			m.Keys = append(append([]Value(nil), m.Keys[:i]...), m.Keys[i+1:]...)
			m.Vals = append(append([]Value(nil), m.Vals[:i]...), m.Vals[i+1:]...)
			return
		}
	}
}

func (r *Run) freeChoice(n int, tag string) int {
	tt := r.eng.tt
	r.eng.choiceCount++
	for i := 0; i < n-1; i++ {
		v := tt.Var(fmt.Sprintf("choice#%s#%d#%d", tag, len(r.ctx.decisions), i), 0)
		if r.Branch(v) {
			return i
		}
	}
	return n - 1
}

func (r *Run) permute(it *IterV) {
	n := len(it.Keys)
	for i := 0; i < n-1; i++ {
		j := i + r.freeChoice(n-i, "mapperm")
		it.Keys[i], it.Keys[j] = it.Keys[j], it.Keys[i]
		it.Vals[i], it.Vals[j] = it.Vals[j], it.Vals[i]
	}
}

func (r *Run) iterNext(it *IterV, x *ssa.Next) Value {
	tt := r.eng.tt
	if x.IsString {
		s := *it.Str
		if it.Pos >= len(s.B) {
			return TupleV{tt.False, tt.Const(64, 0), tt.Const(32, 0)}
		}
		rn, wid := r.decodeRune(s, it.Pos)
		idx := it.Pos
		it.Pos += wid
		return TupleV{tt.True, tt.Const(64, uint64(idx)), rn}
	}
	tup := x.Type().(*types.Tuple)
	for it.Map != nil && it.Index < len(it.Keys) {
		k, v := it.Keys[it.Index], it.Vals[it.Index]
		it.Index++
		// Skip entries deleted since the range began; pick up updated values.
		found := false
		for j, mk := range it.Map.Keys {
			if sameValue(mk, k) {
				v = it.Map.Vals[j]
				found = true
				break
			}
		}
		if !found {
			continue
		}
		return TupleV{tt.True, k, v}
	}
	var kz, vz Value
	if _, ok := tup.At(1).Type().(*types.Basic); ok && tup.At(1).Type().(*types.Basic).Kind() == types.Invalid {
		kz = nil
	} else {
		kz = r.safeZero(tup.At(1).Type())
	}
	vz = r.safeZero(tup.At(2).Type())
	return TupleV{tt.False, kz, vz}
}

func (r *Run) safeZero(t types.Type) Value {
	if b, ok := t.(*types.Basic); ok && b.Kind() == types.Invalid {
		return nil
	}
	return r.eng.zero(t)
}
