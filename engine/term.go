package main

// Hash-consed SMT terms over Bool and fixed-width bit-vectors, with constant
// folding, a concrete evaluator and SMT-LIB2 printing.

import (
	"fmt"
	"math/bits"
	"strings"
)

type Op uint8

const (
	OpConst Op = iota // value in K, width W (W==0: Bool)
	OpVar             // name in Name
	OpNot             // bool not
	OpAnd             // bool and (binary)
	OpOr              // bool or (binary)
	OpIte             // ite(c, a, b) (bool or bv result)
	OpEq              // a == b (bool or bv operands) -> bool
	OpUlt
	OpUle
	OpSlt
	OpSle
	OpAdd
	OpSub
	OpMul
	OpUdiv
	OpUrem
	OpSdiv
	OpSrem
	OpBvAnd
	OpBvOr
	OpBvXor
	OpBvNot
	OpNeg
	OpShl
	OpLshr
	OpAshr
	OpZext    // to width W
	OpSext    // to width W
	OpExtract // low W bits of arg (truncate)
)

var opNames = map[Op]string{
	OpNot: "not", OpAnd: "and", OpOr: "or", OpIte: "ite", OpEq: "=",
	OpUlt: "bvult", OpUle: "bvule", OpSlt: "bvslt", OpSle: "bvsle",
	OpAdd: "bvadd", OpSub: "bvsub", OpMul: "bvmul", OpUdiv: "bvudiv", OpUrem: "bvurem",
	OpSdiv: "bvsdiv", OpSrem: "bvsrem", OpBvAnd: "bvand", OpBvOr: "bvor", OpBvXor: "bvxor",
	OpBvNot: "bvnot", OpNeg: "bvneg", OpShl: "bvshl", OpLshr: "bvlshr", OpAshr: "bvashr",
}

// Term is an immutable hash-consed node. W == 0 means Bool.
type Term struct {
	Op   Op
	W    int
	K    uint64 // constant value (masked to W bits; Bool: 0/1)
	Name string // variable name
	A    []*Term
	ID   int
}

type termKey struct {
	op         Op
	w          int
	k          uint64
	name       string
	a0, a1, a2 int
}

// TermTable owns the terms of one worker.
type TermTable struct {
	tab   map[termKey]*Term
	terms []*Term
	True  *Term
	False *Term
	// narrow[id] is a term n of smaller width with zext(n) == terms[id]
	// (only for bit-vector terms whose value is known to fit).
	narrow   map[int]*Term
	noNarrow bool
}

func NewTermTable() *TermTable {
	tt := &TermTable{tab: map[termKey]*Term{}, narrow: map[int]*Term{}}
	tt.False = tt.Const(0, 0)
	tt.True = tt.Const(0, 1)
	return tt
}

func mask(w int) uint64 {
	if w >= 64 {
		return ^uint64(0)
	}
	if w == 0 {
		return 1
	}
	return (uint64(1) << uint(w)) - 1
}

func (tt *TermTable) mk(op Op, w int, k uint64, name string, a ...*Term) *Term {
	key := termKey{op: op, w: w, k: k, name: name, a0: -1, a1: -1, a2: -1}
	if len(a) > 0 {
		key.a0 = a[0].ID
	}
	if len(a) > 1 {
		key.a1 = a[1].ID
	}
	if len(a) > 2 {
		key.a2 = a[2].ID
	}
	if t, ok := tt.tab[key]; ok {
		return t
	}
	t := &Term{Op: op, W: w, K: k, Name: name, A: a, ID: len(tt.terms)}
	tt.terms = append(tt.terms, t)
	tt.tab[key] = t
	return t
}

func (tt *TermTable) Const(w int, k uint64) *Term {
	return tt.mk(OpConst, w, k&mask(w), "")
}

func (tt *TermTable) Bool(b bool) *Term {
	if b {
		return tt.True
	}
	return tt.False
}

func (tt *TermTable) Var(name string, w int) *Term {
	return tt.mk(OpVar, w, 0, name)
}

func (t *Term) IsConst() bool { return t.Op == OpConst }
func (t *Term) IsTrue() bool  { return t.Op == OpConst && t.W == 0 && t.K == 1 }
func (t *Term) IsFalse() bool { return t.Op == OpConst && t.W == 0 && t.K == 0 }

func sext64(k uint64, w int) int64 {
	if w >= 64 {
		return int64(k)
	}
	sh := uint(64 - w)
	return int64(k<<sh) >> sh
}

// ---- boolean constructors

func (tt *TermTable) Not(a *Term) *Term {
	if a.W != 0 {
		panic("Not on non-bool")
	}
	if a.IsConst() {
		return tt.Bool(a.K == 0)
	}
	if a.Op == OpNot {
		return a.A[0]
	}
	return tt.mk(OpNot, 0, 0, "", a)
}

func (tt *TermTable) And(a, b *Term) *Term {
	if a.IsFalse() || b.IsFalse() {
		return tt.False
	}
	if a.IsTrue() {
		return b
	}
	if b.IsTrue() {
		return a
	}
	if a == b {
		return a
	}
	if a.ID > b.ID {
		a, b = b, a
	}
	return tt.mk(OpAnd, 0, 0, "", a, b)
}

func (tt *TermTable) Or(a, b *Term) *Term {
	if a.IsTrue() || b.IsTrue() {
		return tt.True
	}
	if a.IsFalse() {
		return b
	}
	if b.IsFalse() {
		return a
	}
	if a == b {
		return a
	}
	if a.ID > b.ID {
		a, b = b, a
	}
	return tt.mk(OpOr, 0, 0, "", a, b)
}

func (tt *TermTable) Implies(a, b *Term) *Term { return tt.Or(tt.Not(a), b) }

func (tt *TermTable) Ite(c, a, b *Term) *Term {
	if c.IsTrue() {
		return a
	}
	if c.IsFalse() {
		return b
	}
	if a == b {
		return a
	}
	if a.W != b.W {
		panic(fmt.Sprintf("Ite width mismatch %d %d", a.W, b.W))
	}
	if a.W == 0 {
		if a.IsTrue() && b.IsFalse() {
			return c
		}
		if a.IsFalse() && b.IsTrue() {
			return tt.Not(c)
		}
		if a.IsTrue() {
			return tt.Or(c, b)
		}
		if a.IsFalse() {
			return tt.And(tt.Not(c), b)
		}
		if b.IsTrue() {
			return tt.Or(tt.Not(c), a)
		}
		if b.IsFalse() {
			return tt.And(c, a)
		}
	}
	t := tt.mk(OpIte, a.W, 0, "", c, a, b)
	tt.noteNarrow(t)
	return t
}

func (tt *TermTable) Eq(a, b *Term) *Term {
	if a.W != b.W {
		panic(fmt.Sprintf("Eq width mismatch %d %d", a.W, b.W))
	}
	if a == b {
		return tt.True
	}
	if a.IsConst() && b.IsConst() {
		return tt.Bool(a.K == b.K)
	}
	if a.W == 0 {
		if a.IsConst() {
			a, b = b, a
		}
		if b.IsTrue() {
			return a
		}
		if b.IsFalse() {
			return tt.Not(a)
		}
	}
	// eq(ite(c, k1, k2), k) folding for constant leaves.
	if b.IsConst() && a.Op == OpIte {
		return tt.eqIteConst(a, b)
	}
	if a.IsConst() && b.Op == OpIte {
		return tt.eqIteConst(b, a)
	}
	// eq(zext(x), k): compare at narrow width when k fits.
	if b.IsConst() && a.Op == OpZext {
		x := a.A[0]
		if b.K&^mask(x.W) != 0 {
			return tt.False
		}
		return tt.Eq(x, tt.Const(x.W, b.K))
	}
	if a.IsConst() && b.Op == OpZext {
		return tt.Eq(b, a)
	}
	if a.W >= 16 {
		// a narrow-representable term can never equal a constant that does not fit
		if na, ok := tt.Narrow(a); ok && b.IsConst() && b.K&^mask(na.W) != 0 {
			return tt.False
		}
		if nb, ok := tt.Narrow(b); ok && a.IsConst() && a.K&^mask(nb.W) != 0 {
			return tt.False
		}
		if na, nb, ok := tt.narrowPair(a, b); ok {
			return tt.Eq(na, nb)
		}
	}
	if a.ID > b.ID {
		a, b = b, a
	}
	return tt.mk(OpEq, 0, 0, "", a, b)
}

// eqIteConst folds ite chains with constant leaves compared with a constant;
// bounded depth to stay linear.
func (tt *TermTable) eqIteConst(it, k *Term) *Term {
	x, y := it.A[1], it.A[2]
	xc := x.IsConst()
	yc := y.IsConst()
	if xc && yc {
		return tt.Ite(it.A[0], tt.Bool(x.K == k.K), tt.Bool(y.K == k.K))
	}
	if xc && y.Op == OpIte {
		return tt.Ite(it.A[0], tt.Bool(x.K == k.K), tt.eqIteConst(y, k))
	}
	if yc && x.Op == OpIte {
		return tt.Ite(it.A[0], tt.eqIteConst(x, k), tt.Bool(y.K == k.K))
	}
	a, b := it, k
	if a.ID > b.ID {
		a, b = b, a
	}
	return tt.mk(OpEq, 0, 0, "", a, b)
}

func (tt *TermTable) cmp(op Op, a, b *Term) *Term {
	if a.W != b.W || a.W == 0 {
		panic(fmt.Sprintf("cmp width mismatch %d %d", a.W, b.W))
	}
	if a.IsConst() && b.IsConst() {
		switch op {
		case OpUlt:
			return tt.Bool(a.K < b.K)
		case OpUle:
			return tt.Bool(a.K <= b.K)
		case OpSlt:
			return tt.Bool(sext64(a.K, a.W) < sext64(b.K, a.W))
		case OpSle:
			return tt.Bool(sext64(a.K, a.W) <= sext64(b.K, a.W))
		}
	}
	if a == b {
		return tt.Bool(op == OpUle || op == OpSle)
	}
	// Comparisons of zero-extended narrow values against constants: narrow them.
	if a.Op == OpZext && b.IsConst() {
		x := a.A[0]
		kb := b.K
		neg := op == OpSlt || op == OpSle
		if neg && sext64(kb, b.W) < 0 {
			return tt.False // zext >= 0 > negative const
		}
		if kb > mask(x.W) {
			return tt.True
		}
		nop := op
		if op == OpSlt {
			nop = OpUlt
		} else if op == OpSle {
			nop = OpUle
		}
		return tt.cmp(nop, x, tt.Const(x.W, kb))
	}
	if b.Op == OpZext && a.IsConst() {
		x := b.A[0]
		ka := a.K
		neg := op == OpSlt || op == OpSle
		if neg && sext64(ka, a.W) < 0 {
			return tt.True
		}
		if ka > mask(x.W) {
			return tt.False
		}
		nop := op
		if op == OpSlt {
			nop = OpUlt
		} else if op == OpSle {
			nop = OpUle
		}
		return tt.cmp(nop, tt.Const(x.W, ka), x)
	}
	if a.Op == OpZext && b.Op == OpZext && a.A[0].W == b.A[0].W {
		nop := op
		if op == OpSlt {
			nop = OpUlt
		} else if op == OpSle {
			nop = OpUle
		}
		return tt.cmp(nop, a.A[0], b.A[0])
	}
	if a.W >= 16 {
		signed := op == OpSlt || op == OpSle
		uop := op
		if op == OpSlt {
			uop = OpUlt
		} else if op == OpSle {
			uop = OpUle
		}
		na, oka := tt.Narrow(a)
		nb, okb := tt.Narrow(b)
		if oka && okb {
			w := na.W
			if nb.W > w {
				w = nb.W
			}
			return tt.cmp(uop, tt.widen(na, w), tt.widen(nb, w))
		}
		// narrow non-negative value against a constant that does not fit
		if oka && b.IsConst() {
			if signed && sext64(b.K, b.W) < 0 {
				return tt.False // nonneg < negative
			}
			return tt.True // small < big
		}
		if okb && a.IsConst() {
			if signed && sext64(a.K, a.W) < 0 {
				return tt.True
			}
			return tt.False
		}
	}
	return tt.mk(op, 0, 0, "", a, b)
}

func (tt *TermTable) Ult(a, b *Term) *Term { return tt.cmp(OpUlt, a, b) }
func (tt *TermTable) Ule(a, b *Term) *Term { return tt.cmp(OpUle, a, b) }
func (tt *TermTable) Slt(a, b *Term) *Term { return tt.cmp(OpSlt, a, b) }
func (tt *TermTable) Sle(a, b *Term) *Term { return tt.cmp(OpSle, a, b) }

func foldBin(op Op, w int, x, y uint64) (uint64, bool) {
	m := mask(w)
	switch op {
	case OpAdd:
		return (x + y) & m, true
	case OpSub:
		return (x - y) & m, true
	case OpMul:
		return (x * y) & m, true
	case OpUdiv:
		if y == 0 {
			return m, true
		}
		return (x / y) & m, true
	case OpUrem:
		if y == 0 {
			return x, true
		}
		return (x % y) & m, true
	case OpSdiv:
		sx, sy := sext64(x, w), sext64(y, w)
		if sy == 0 {
			if sx < 0 {
				return 1, true
			}
			return m, true
		}
		if sy == -1 {
			return uint64(-sx) & m, true
		}
		return uint64(sx/sy) & m, true
	case OpSrem:
		sx, sy := sext64(x, w), sext64(y, w)
		if sy == 0 {
			return x, true
		}
		if sy == -1 {
			return 0, true
		}
		return uint64(sx%sy) & m, true
	case OpBvAnd:
		return x & y, true
	case OpBvOr:
		return x | y, true
	case OpBvXor:
		return x ^ y, true
	case OpShl:
		if y >= uint64(w) {
			return 0, true
		}
		return (x << y) & m, true
	case OpLshr:
		if y >= uint64(w) {
			return 0, true
		}
		return (x >> y) & m, true
	case OpAshr:
		sx := sext64(x, w)
		if y >= uint64(w) {
			if sx < 0 {
				return m, true
			}
			return 0, true
		}
		return uint64(sx>>y) & m, true
	}
	return 0, false
}

func (tt *TermTable) Bin(op Op, a, b *Term) *Term {
	if a.W != b.W || a.W == 0 {
		panic(fmt.Sprintf("Bin %v width mismatch %d %d", opNames[op], a.W, b.W))
	}
	if a.IsConst() && b.IsConst() {
		if k, ok := foldBin(op, a.W, a.K, b.K); ok {
			return tt.Const(a.W, k)
		}
	}
	switch op {
	case OpAdd, OpBvOr, OpBvXor:
		if a.IsConst() && a.K == 0 {
			return b
		}
		if b.IsConst() && b.K == 0 {
			return a
		}
	case OpSub, OpShl, OpLshr, OpAshr:
		if b.IsConst() && b.K == 0 {
			return a
		}
	case OpMul:
		if a.IsConst() && a.K == 1 {
			return b
		}
		if b.IsConst() && b.K == 1 {
			return a
		}
		if (a.IsConst() && a.K == 0) || (b.IsConst() && b.K == 0) {
			return tt.Const(a.W, 0)
		}
	case OpBvAnd:
		if (a.IsConst() && a.K == 0) || (b.IsConst() && b.K == 0) {
			return tt.Const(a.W, 0)
		}
		if a.IsConst() && a.K == mask(a.W) {
			return b
		}
		if b.IsConst() && b.K == mask(a.W) {
			return a
		}
	}
	// Commutative normalisation.
	switch op {
	case OpAdd, OpMul, OpBvAnd, OpBvOr, OpBvXor:
		if a.ID > b.ID {
			a, b = b, a
		}
	}
	t := tt.mk(op, a.W, 0, "", a, b)
	tt.noteNarrow(t)
	return t
}

func (tt *TermTable) Add(a, b *Term) *Term { return tt.Bin(OpAdd, a, b) }
func (tt *TermTable) Sub(a, b *Term) *Term { return tt.Bin(OpSub, a, b) }
func (tt *TermTable) Mul(a, b *Term) *Term { return tt.Bin(OpMul, a, b) }

func (tt *TermTable) BvNot(a *Term) *Term {
	if a.IsConst() {
		return tt.Const(a.W, ^a.K)
	}
	return tt.mk(OpBvNot, a.W, 0, "", a)
}

func (tt *TermTable) Neg(a *Term) *Term {
	if a.IsConst() {
		return tt.Const(a.W, -a.K)
	}
	return tt.mk(OpNeg, a.W, 0, "", a)
}

// Resize converts a to width w, sign- or zero-extending / truncating.
func (tt *TermTable) Resize(a *Term, w int, signed bool) *Term {
	if a.W == 0 {
		panic("Resize of bool")
	}
	if a.W == w {
		return a
	}
	if w < a.W {
		if a.IsConst() {
			return tt.Const(w, a.K)
		}
		if (a.Op == OpZext || a.Op == OpSext) && a.A[0].W >= w {
			return tt.Resize(a.A[0], w, false)
		}
		return tt.mk(OpExtract, w, 0, "", a)
	}
	if a.IsConst() {
		if signed {
			return tt.Const(w, uint64(sext64(a.K, a.W)))
		}
		return tt.Const(w, a.K)
	}
	if signed {
		if a.Op == OpZext {
			// sign-extending a zero-extended value: top bit is 0.
			return tt.mk(OpZext, w, 0, "", a.A[0])
		}
		return tt.mk(OpSext, w, 0, "", a)
	}
	if a.Op == OpZext {
		return tt.mk(OpZext, w, 0, "", a.A[0])
	}
	return tt.mk(OpZext, w, 0, "", a)
}

// ---- evaluation under a model (variables absent from the model are 0)

type Model map[string]uint64

func (tt *TermTable) Eval(t *Term, m Model, memo map[int]uint64) uint64 {
	if t.Op == OpConst {
		return t.K
	}
	if v, ok := memo[t.ID]; ok {
		return v
	}
	var r uint64
	switch t.Op {
	case OpVar:
		r = m[t.Name] & mask(t.W)
	case OpNot:
		r = 1 - tt.Eval(t.A[0], m, memo)
	case OpAnd:
		r = tt.Eval(t.A[0], m, memo) & tt.Eval(t.A[1], m, memo)
	case OpOr:
		r = tt.Eval(t.A[0], m, memo) | tt.Eval(t.A[1], m, memo)
	case OpIte:
		if tt.Eval(t.A[0], m, memo) == 1 {
			r = tt.Eval(t.A[1], m, memo)
		} else {
			r = tt.Eval(t.A[2], m, memo)
		}
	case OpEq:
		if tt.Eval(t.A[0], m, memo) == tt.Eval(t.A[1], m, memo) {
			r = 1
		}
	case OpUlt, OpUle, OpSlt, OpSle:
		x, y := tt.Eval(t.A[0], m, memo), tt.Eval(t.A[1], m, memo)
		w := t.A[0].W
		var b bool
		switch t.Op {
		case OpUlt:
			b = x < y
		case OpUle:
			b = x <= y
		case OpSlt:
			b = sext64(x, w) < sext64(y, w)
		case OpSle:
			b = sext64(x, w) <= sext64(y, w)
		}
		if b {
			r = 1
		}
	case OpBvNot:
		r = ^tt.Eval(t.A[0], m, memo) & mask(t.W)
	case OpNeg:
		r = (-tt.Eval(t.A[0], m, memo)) & mask(t.W)
	case OpZext:
		r = tt.Eval(t.A[0], m, memo)
	case OpSext:
		r = uint64(sext64(tt.Eval(t.A[0], m, memo), t.A[0].W)) & mask(t.W)
	case OpExtract:
		r = tt.Eval(t.A[0], m, memo) & mask(t.W)
	default:
		x, y := tt.Eval(t.A[0], m, memo), tt.Eval(t.A[1], m, memo)
		k, ok := foldBin(t.Op, t.W, x, y)
		if !ok {
			panic("Eval: bad op")
		}
		r = k
	}
	memo[t.ID] = r
	return r
}

// ---- SMT-LIB printing

func sortOf(w int) string {
	if w == 0 {
		return "Bool"
	}
	return fmt.Sprintf("(_ BitVec %d)", w)
}

func constText(t *Term) string {
	if t.W == 0 {
		if t.K == 1 {
			return "true"
		}
		return "false"
	}
	if t.W%4 == 0 {
		return fmt.Sprintf("#x%0*x", t.W/4, t.K)
	}
	return fmt.Sprintf("#b%0*b", t.W, t.K)
}

func smtName(t *Term) string {
	switch t.Op {
	case OpConst:
		return constText(t)
	case OpVar:
		return "|" + t.Name + "|"
	}
	return fmt.Sprintf("t%d", t.ID)
}

// body renders the defining expression of a non-leaf term over child names.
func smtBody(t *Term) string {
	var sb strings.Builder
	switch t.Op {
	case OpZext:
		fmt.Fprintf(&sb, "((_ zero_extend %d) %s)", t.W-t.A[0].W, smtName(t.A[0]))
	case OpSext:
		fmt.Fprintf(&sb, "((_ sign_extend %d) %s)", t.W-t.A[0].W, smtName(t.A[0]))
	case OpExtract:
		fmt.Fprintf(&sb, "((_ extract %d 0) %s)", t.W-1, smtName(t.A[0]))
	default:
		sb.WriteByte('(')
		sb.WriteString(opNames[t.Op])
		for _, a := range t.A {
			sb.WriteByte(' ')
			sb.WriteString(smtName(a))
		}
		sb.WriteByte(')')
	}
	return sb.String()
}

// Size counts DAG nodes (for statistics).
func (t *Term) Size(seen map[int]bool) int {
	if seen[t.ID] {
		return 0
	}
	seen[t.ID] = true
	n := 1
	for _, a := range t.A {
		n += a.Size(seen)
	}
	return n
}

func bitsLen(x uint64) int { return bits.Len64(x) }


// ---- narrowing: many 64-bit Go values are tiny (digits, lengths, counters).
// For such terms a narrow shadow is kept so that comparisons and equalities
// can be bit-blasted at the narrow width.

const maxNarrow = 40

// Narrow returns (n, true) when zext(n) == t for a term n narrower than t.
func (tt *TermTable) Narrow(t *Term) (*Term, bool) {
	if tt.noNarrow || t.W == 0 {
		return nil, false
	}
	if t.Op == OpConst {
		w := bitsLen(t.K)
		if w == 0 {
			w = 1
		}
		if w < t.W && w <= maxNarrow {
			return tt.Const(w, t.K), true
		}
		return nil, false
	}
	if t.Op == OpZext {
		return t.A[0], true
	}
	n, ok := tt.narrow[t.ID]
	return n, ok
}

func (tt *TermTable) widen(a *Term, w int) *Term {
	if a.W == w {
		return a
	}
	return tt.Resize(a, w, false)
}

// noteNarrow is called by constructors for freshly built wide terms.
func (tt *TermTable) noteNarrow(t *Term) {
	if tt.noNarrow || t.W < 16 {
		return
	}
	if _, done := tt.narrow[t.ID]; done {
		return
	}
	switch t.Op {
	case OpIte:
		a, ok1 := tt.Narrow(t.A[1])
		b, ok2 := tt.Narrow(t.A[2])
		if ok1 && ok2 {
			w := a.W
			if b.W > w {
				w = b.W
			}
			tt.narrow[t.ID] = tt.Ite(t.A[0], tt.widen(a, w), tt.widen(b, w))
		}
	case OpAdd:
		a, ok1 := tt.Narrow(t.A[0])
		b, ok2 := tt.Narrow(t.A[1])
		if ok1 && ok2 {
			w := a.W
			if b.W > w {
				w = b.W
			}
			w++
			if w < t.W && w <= maxNarrow {
				tt.narrow[t.ID] = tt.Bin(OpAdd, tt.widen(a, w), tt.widen(b, w))
			}
		}
	case OpMul:
		a, ok1 := tt.Narrow(t.A[0])
		b, ok2 := tt.Narrow(t.A[1])
		if ok1 && ok2 {
			w := a.W + b.W
			if w < t.W && w <= maxNarrow {
				tt.narrow[t.ID] = tt.Bin(OpMul, tt.widen(a, w), tt.widen(b, w))
			}
		}
	case OpBvAnd:
		a, ok1 := tt.Narrow(t.A[0])
		b, ok2 := tt.Narrow(t.A[1])
		if ok1 && ok2 {
			w := a.W
			if b.W > w {
				w = b.W
			}
			tt.narrow[t.ID] = tt.Bin(OpBvAnd, tt.widen(a, w), tt.widen(b, w))
		}
	case OpBvOr, OpBvXor:
		a, ok1 := tt.Narrow(t.A[0])
		b, ok2 := tt.Narrow(t.A[1])
		if ok1 && ok2 {
			w := a.W
			if b.W > w {
				w = b.W
			}
			tt.narrow[t.ID] = tt.Bin(t.Op, tt.widen(a, w), tt.widen(b, w))
		}
	}
}

// narrowPair brings two wide terms to a common narrow width when both fit.
func (tt *TermTable) narrowPair(a, b *Term) (*Term, *Term, bool) {
	na, ok1 := tt.Narrow(a)
	nb, ok2 := tt.Narrow(b)
	if !ok1 || !ok2 {
		return nil, nil, false
	}
	w := na.W
	if nb.W > w {
		w = nb.W
	}
	return tt.widen(na, w), tt.widen(nb, w), true
}
