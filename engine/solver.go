package main

// A persistent SMT solver process driven over a pipe with definitional guard
// literals and check-sat-assuming. Every read has a deadline.

import (
	"bufio"
	"fmt"
	"io"
	"os"
	"os/exec"
	"sort"
	"strconv"
	"strings"
	"time"
)

type Result int

const (
	Unsat Result = iota
	Sat
	Unknown
)

func (r Result) String() string { return [...]string{"unsat", "sat", "unknown"}[r] }

// Lit is +/-(termID+1) of a Bool term.
type Lit int

type SolverStats struct {
	Queries   int
	Sat       int
	UnsatN    int
	UnknownN  int
	CacheHits int
	Defs      int
	Restarts  int
	Time      time.Duration
	Errors    []string
}

var debugDefs = os.Getenv("GOSYM_DEBUG_DEFS") != ""

type prefixDef struct {
	prev int // 0 = empty prefix
	lit  Lit
}

type Solver struct {
	qbuf       []byte
	guardBits  []bool // guardBits[termID]: guard literal exists in the current context
	prefixes   []prefixDef        // index = prefix id - 1
	prefixIdx  map[prefixDef]int  // -> prefix id
	prefixEmit map[int]bool       // emitted in the current solver context
	where     string
	tt        *TermTable
	bin       string
	args      []string
	timeoutMs int
	cmd       *exec.Cmd
	in        *bufio.Writer
	inRaw     io.WriteCloser
	lines     chan string
	emitted   map[int]bool // term IDs defined in this process
	guards    map[int]bool // term IDs with a guard literal in this process
	vars      []*Term      // declared variables, in order
	varSet    map[int]bool
	allVars   []*Term // variables ever declared (survive restarts)
	cache     map[string]Result
	Stats     SolverStats
	defsLimit int
	defsAtStart int
	defsBase    int
	dump      *os.File // optional transcript
}

func NewSolver(tt *TermTable, bin string, timeoutMs int) *Solver {
	s := &Solver{tt: tt, bin: bin, timeoutMs: timeoutMs, cache: map[string]Result{}, defsLimit: envInt("GOSYM_DEFS_LIMIT", 400000)}
	s.start()
	return s
}

func (s *Solver) start() {
	var args []string
	switch {
	case strings.Contains(s.bin, "cvc5"):
		args = []string{"--incremental", "--lang=smt2", "-q", fmt.Sprintf("--tlimit-per=%d", s.timeoutMs), "--produce-models"}
	default:
		args = []string{"-in", fmt.Sprintf("-t:%d", s.timeoutMs)}
	}
	cmd := exec.Command(s.bin, args...)
	stdin, err := cmd.StdinPipe()
	if err != nil {
		panic(err)
	}
	stdout, err := cmd.StdoutPipe()
	if err != nil {
		panic(err)
	}
	cmd.Stderr = nil
	if err := cmd.Start(); err != nil {
		panic(fmt.Sprintf("cannot start solver %s: %v", s.bin, err))
	}
	s.cmd = cmd
	s.inRaw = stdin
	s.in = bufio.NewWriterSize(stdin, 1<<16)
	s.lines = make(chan string, 64)
	go func(ch chan string) {
		sc := bufio.NewScanner(stdout)
		sc.Buffer(make([]byte, 1<<20), 1<<26)
		for sc.Scan() {
			ch <- sc.Text()
		}
		close(ch)
	}(s.lines)
	s.emitted = map[int]bool{}
	s.guards = map[int]bool{}
	s.guardBits = nil
	s.prefixEmit = map[int]bool{}
	if s.prefixIdx == nil {
		s.prefixIdx = map[prefixDef]int{}
	}
	s.vars = nil
	s.varSet = map[int]bool{}
	if strings.Contains(s.bin, "cvc5") {
		s.send("(set-logic QF_BV)\n")
	}
	s.send("(set-option :produce-models true)\n")
}

// Prefix returns the id of the conjunction "prefix prev, then literal l".
func (s *Solver) Prefix(prev int, l Lit) int {
	d := prefixDef{prev, l}
	if id, ok := s.prefixIdx[d]; ok {
		return id
	}
	s.prefixes = append(s.prefixes, d)
	id := len(s.prefixes)
	s.prefixIdx[d] = id
	return id
}

func (s *Solver) litText(l Lit) string {
	id := int(l)
	neg := false
	if id < 0 {
		id = -id
		neg = true
	}
	g := s.guard(s.tt.terms[id-1])
	if neg {
		return "(not " + g + ")"
	}
	return g
}

// emitPrefix defines p<id> = (and p<prev> <lit>) in the current context (iteratively).
func (s *Solver) emitPrefix(id int) {
	var chain []int
	for cur := id; cur != 0 && !s.prefixEmit[cur]; cur = s.prefixes[cur-1].prev {
		chain = append(chain, cur)
	}
	for i := len(chain) - 1; i >= 0; i-- {
		cur := chain[i]
		d := s.prefixes[cur-1]
		lt := s.litText(d.lit)
		if d.prev == 0 {
			s.send(fmt.Sprintf("(declare-const p%d Bool)\n(assert (= p%d %s))\n", cur, cur, lt))
		} else {
			s.send(fmt.Sprintf("(declare-const p%d Bool)\n(assert (= p%d (and p%d %s)))\n", cur, cur, d.prev, lt))
		}
		s.prefixEmit[cur] = true
		s.Stats.Defs++
	}
}

// CheckLits decides the conjunction of lits and extra (0 = none); the pc
// literals are known to be duplicate-free apart from repeats, which the solver
// tolerates. key identifies the literal set for the cache.
func (s *Solver) CheckLits(lits []Lit, extra Lit, wantModel bool, key string) (Result, Model) {
	if r, ok := s.cache[key]; ok && (!wantModel || r != Sat) {
		s.Stats.CacheHits++
		return r, nil
	}
	if s.Stats.Defs-s.defsBase > s.defsLimit {
		s.softReset()
	}
	start := time.Now()
	buf := s.qbuf[:0]
	buf = append(buf, "(check-sat-assuming ("...)
	emit := func(l Lit) {
		id := int(l)
		neg := false
		if id < 0 {
			id = -id
			neg = true
		}
		tid := id - 1
		if tid >= len(s.guardBits) || !s.guardBits[tid] {
			s.guard(s.tt.terms[tid])
			for tid >= len(s.guardBits) {
				s.guardBits = append(s.guardBits, false)
			}
			s.guardBits[tid] = true
		}
		if neg {
			buf = append(buf, "(not g"...)
			buf = strconv.AppendInt(buf, int64(tid), 10)
			buf = append(buf, ") "...)
		} else {
			buf = append(buf, 'g')
			buf = strconv.AppendInt(buf, int64(tid), 10)
			buf = append(buf, ' ')
		}
	}
	for _, l := range lits {
		emit(l)
	}
	if extra != 0 {
		emit(extra)
	}
	buf = append(buf, "))\n"...)
	s.qbuf = buf
	if s.dump != nil {
		s.dump.Write(buf)
	}
	s.in.Write(buf)
	s.in.Flush()
	s.Stats.Queries++
	res := s.readVerdict()
	var model Model
	if res == Sat && wantModel {
		model = s.getModel()
		if model == nil {
			res = Unknown
		}
	}
	s.Stats.Time += time.Since(start)
	switch res {
	case Sat:
		s.Stats.Sat++
	case Unsat:
		s.Stats.UnsatN++
	default:
		s.Stats.UnknownN++
	}
	s.cache[key] = res
	return res, model
}

// CheckPrefix decides prefix ∧ extra (extra == 0: none).
func (s *Solver) CheckPrefix(prefix int, extra Lit, wantModel bool) (Result, Model) {
	key := fmt.Sprintf("P%d|%d", prefix, int(extra))
	if r, ok := s.cache[key]; ok && (!wantModel || r != Sat) {
		s.Stats.CacheHits++
		return r, nil
	}
	if s.Stats.Defs-s.defsBase > s.defsLimit {
		s.softReset()
	}
	start := time.Now()
	var sb strings.Builder
	sb.WriteString("(check-sat-assuming (")
	if prefix != 0 {
		s.emitPrefix(prefix)
		fmt.Fprintf(&sb, "p%d ", prefix)
	}
	if extra != 0 {
		sb.WriteString(s.litText(extra))
	}
	sb.WriteString("))\n")
	s.send(sb.String())
	s.in.Flush()
	s.Stats.Queries++
	res := s.readVerdict()
	var model Model
	if res == Sat && wantModel {
		model = s.getModel()
		if model == nil {
			res = Unknown
		}
	}
	s.Stats.Time += time.Since(start)
	switch res {
	case Sat:
		s.Stats.Sat++
	case Unsat:
		s.Stats.UnsatN++
	default:
		s.Stats.UnknownN++
	}
	s.cache[key] = res
	return res, model
}

func (s *Solver) readVerdict() Result {
	deadline := time.Duration(s.timeoutMs)*time.Millisecond + 10*time.Second
	for {
		l, ok := s.readLine(deadline)
		if !ok {
			s.Stats.Errors = append(s.Stats.Errors, "solver read timeout/eof")
			s.restart()
			return Unknown
		}
		l = strings.TrimSpace(l)
		switch {
		case l == "sat":
			return Sat
		case l == "unsat":
			return Unsat
		case l == "unknown" || l == "timeout":
			return Unknown
		case strings.HasPrefix(l, "(error"):
			if len(s.Stats.Errors) < 20 {
				s.Stats.Errors = append(s.Stats.Errors, l)
			}
		}
	}
}

func (s *Solver) Close() {
	if s.cmd != nil {
		s.inRaw.Close()
		s.cmd.Process.Kill()
		s.cmd.Wait()
		s.cmd = nil
	}
}

// freshContext gives each job its own solver process (no variables or
// definitions left over from earlier jobs).
func (s *Solver) freshContext() {
	if s.Stats.Defs == s.defsAtStart {
		return
	}
	s.Close()
	s.start()
	s.defsAtStart = s.Stats.Defs
	s.defsBase = s.Stats.Defs
}

// softReset clears the solver context in-process.
func (s *Solver) softReset() {
	s.defsBase = s.Stats.Defs
	s.send("(reset)\n")
	if strings.Contains(s.bin, "cvc5") {
		s.send("(set-logic QF_BV)\n")
	}
	s.send("(set-option :produce-models true)\n")
	s.emitted = map[int]bool{}
	s.guards = map[int]bool{}
	s.guardBits = nil
	s.prefixEmit = map[int]bool{}
	s.vars = nil
	s.varSet = map[int]bool{}
	s.Stats.Restarts++
}

func (s *Solver) restart() {
	s.defsBase = s.Stats.Defs
	s.Close()
	s.Stats.Restarts++
	s.start()
}

func (s *Solver) send(txt string) {
	if s.dump != nil {
		s.dump.WriteString(txt)
	}
	s.in.WriteString(txt)
}

func (s *Solver) readLine(d time.Duration) (string, bool) {
	select {
	case l, ok := <-s.lines:
		if !ok {
			return "", false
		}
		return l, true
	case <-time.After(d):
		return "", false
	}
}

// define makes sure term t (and its sub-terms) are known to the solver process.
func (s *Solver) define(t *Term) {
	if t.Op == OpConst || s.emitted[t.ID] {
		return
	}
	// Iterative post-order to avoid deep recursion on long ite chains.
	type fr struct {
		t *Term
		i int
	}
	stack := []fr{{t, 0}}
	for len(stack) > 0 {
		f := &stack[len(stack)-1]
		if f.t.Op == OpConst || s.emitted[f.t.ID] {
			stack = stack[:len(stack)-1]
			continue
		}
		if f.i < len(f.t.A) {
			c := f.t.A[f.i]
			f.i++
			if c.Op != OpConst && !s.emitted[c.ID] {
				stack = append(stack, fr{c, 0})
			}
			continue
		}
		x := f.t
		stack = stack[:len(stack)-1]
		s.emitted[x.ID] = true
		s.Stats.Defs++
		if x.Op == OpVar {
			s.send(fmt.Sprintf("(declare-const %s %s)\n", smtName(x), sortOf(x.W)))
			s.vars = append(s.vars, x)
			if !s.varSet[x.ID] {
				s.varSet[x.ID] = true
			}
			continue
		}
		s.send(fmt.Sprintf("(define-fun %s () %s %s)\n", smtName(x), sortOf(x.W), smtBody(x)))
	}
}

func (s *Solver) guard(t *Term) string {
	if !s.guards[t.ID] {
		s.define(t)
		s.guards[t.ID] = true
		s.send(fmt.Sprintf("(declare-const g%d Bool)\n(assert (= g%d %s))\n", t.ID, t.ID, smtName(t)))
	}
	return fmt.Sprintf("g%d", t.ID)
}

func (s *Solver) LitOf(t *Term, positive bool) Lit {
	if t.W != 0 {
		panic("LitOf non-bool")
	}
	if t.Op == OpNot {
		return s.LitOf(t.A[0], !positive)
	}
	if positive {
		return Lit(t.ID + 1)
	}
	return Lit(-(t.ID + 1))
}

func litKey(lits []Lit) string {
	xs := make([]int, len(lits))
	for i, l := range lits {
		xs[i] = int(l)
	}
	sort.Ints(xs)
	var sb strings.Builder
	prev := 0
	for i, x := range xs {
		if i > 0 && x == prev {
			continue
		}
		prev = x
		sb.WriteString(strconv.Itoa(x))
		sb.WriteByte(',')
	}
	return sb.String()
}

// Check decides satisfiability of the conjunction of lits. With wantModel it
// also returns values for every declared variable when the answer is sat.
func (s *Solver) Check(lits []Lit, wantModel bool) (Result, Model) {
	return s.CheckKey(lits, wantModel, litKey(lits))
}

// CheckKey is Check with a caller-supplied cache key for the literal set.
func (s *Solver) CheckKey(lits []Lit, wantModel bool, key string) (Result, Model) {
	if !wantModel {
		if r, ok := s.cache[key]; ok {
			s.Stats.CacheHits++
			return r, nil
		}
	} else if r, ok := s.cache[key]; ok && r != Sat {
		s.Stats.CacheHits++
		return r, nil
	}
	if s.Stats.Defs-s.defsBase > s.defsLimit {
		s.softReset()
	}
	start := time.Now()
	defs0 := s.Stats.Defs
	var sb strings.Builder
	sb.WriteString("(check-sat-assuming (")
	seen := map[Lit]bool{}
	for _, l := range lits {
		if seen[l] {
			continue
		}
		seen[l] = true
		id := int(l)
		neg := false
		if id < 0 {
			id = -id
			neg = true
		}
		t := s.tt.terms[id-1]
		g := s.guard(t)
		if neg {
			sb.WriteString("(not " + g + ") ")
		} else {
			sb.WriteString(g + " ")
		}
	}
	sb.WriteString("))\n")
	s.send(sb.String())
	s.in.Flush()
	s.Stats.Queries++
	if debugDefs && s.Stats.Defs-defs0 > 500 {
		fmt.Fprintf(os.Stderr, "query %d: %d new defs, %d lits (%s)\n", s.Stats.Queries, s.Stats.Defs-defs0, len(lits), s.where)
	}
	res := Unknown
	deadline := time.Duration(s.timeoutMs)*time.Millisecond + 10*time.Second
	for {
		l, ok := s.readLine(deadline)
		if !ok {
			s.Stats.Errors = append(s.Stats.Errors, "solver read timeout/eof")
			s.restart()
			res = Unknown
			break
		}
		l = strings.TrimSpace(l)
		if l == "sat" {
			res = Sat
			break
		}
		if l == "unsat" {
			res = Unsat
			break
		}
		if l == "unknown" || l == "timeout" {
			res = Unknown
			break
		}
		if strings.HasPrefix(l, "(error") {
			if len(s.Stats.Errors) < 20 {
				s.Stats.Errors = append(s.Stats.Errors, l)
			}
			res = Unknown
			// keep reading: the verdict line still follows in z3; but be safe
			continue
		}
	}
	var model Model
	if res == Sat && wantModel {
		model = s.getModel()
		if model == nil {
			res = Unknown
		}
	}
	s.Stats.Time += time.Since(start)
	switch res {
	case Sat:
		s.Stats.Sat++
	case Unsat:
		s.Stats.UnsatN++
	default:
		s.Stats.UnknownN++
	}
	s.cache[key] = res
	return res, model
}

func (s *Solver) getModel() Model {
	m := Model{}
	if len(s.vars) == 0 {
		return m
	}
	var sb strings.Builder
	sb.WriteString("(get-value (")
	for _, v := range s.vars {
		sb.WriteString(smtName(v))
		sb.WriteByte(' ')
	}
	sb.WriteString("))\n")
	s.send(sb.String())
	s.in.Flush()
	depth := 0
	started := false
	var txt strings.Builder
	for {
		l, ok := s.readLine(30 * time.Second)
		if !ok {
			s.Stats.Errors = append(s.Stats.Errors, "get-value timeout")
			s.restart()
			return nil
		}
		if strings.HasPrefix(strings.TrimSpace(l), "(error") {
			s.Stats.Errors = append(s.Stats.Errors, l)
			return nil
		}
		inBar := false
		for _, c := range l {
			if c == '|' {
				inBar = !inBar
			}
			if inBar {
				continue
			}
			if c == '(' {
				depth++
				started = true
			} else if c == ')' {
				depth--
			}
		}
		txt.WriteString(l)
		txt.WriteByte(' ')
		if started && depth == 0 {
			break
		}
	}
	// Parse pairs: (|name| #x..) / (|name| #b..) / (|name| true)
	str := txt.String()
	i := 0
	for i < len(str) {
		j := strings.IndexByte(str[i:], '|')
		if j < 0 {
			break
		}
		j += i
		k := strings.IndexByte(str[j+1:], '|')
		if k < 0 {
			break
		}
		k += j + 1
		name := str[j+1 : k]
		rest := str[k+1:]
		e := strings.IndexByte(rest, ')')
		if e < 0 {
			break
		}
		val := strings.TrimSpace(rest[:e])
		var x uint64
		switch {
		case val == "true":
			x = 1
		case val == "false":
			x = 0
		case strings.HasPrefix(val, "#x"):
			x, _ = strconv.ParseUint(val[2:], 16, 64)
		case strings.HasPrefix(val, "#b"):
			x, _ = strconv.ParseUint(val[2:], 2, 64)
		case strings.HasPrefix(val, "(_ bv"):
			f := strings.Fields(val[5:])
			if len(f) > 0 {
				x, _ = strconv.ParseUint(f[0], 10, 64)
			}
			// the closing paren consumed belongs to (_ bvN w); fine.
		}
		m[name] = x
		i = k + 1 + e
	}
	return m
}

func envInt(name string, def int) int {
	if v := os.Getenv(name); v != "" {
		if n, err := strconv.Atoi(v); err == nil {
			return n
		}
	}
	return def
}
