package main

// Path exploration by stateless re-execution: a path is its list of branch
// decisions. Pure scalar-valued callees can be summarised (nested exploration
// merged into one ite term) so that laws over several calls are decided in one
// query instead of a product of paths.

import (
	"fmt"
	"go/token"
	"os"
	"sort"
	"strings"
	"time"
)

var traceBranches = os.Getenv("GOSYM_TRACE") != ""

type OutcomeKind int

const (
	OutOK OutcomeKind = iota
	OutAssertFail
	OutPanic
	OutUnwind
	OutUnsupported
	OutInfeasible
	OutBudget
)

func (k OutcomeKind) String() string {
	return [...]string{"ok", "assert_fail", "panic", "unwind", "unsupported", "infeasible", "budget"}[k]
}

// pathEnd is thrown (as a Go panic) to end the current path.
type pathEnd struct {
	kind OutcomeKind
	msg  string
	pos  token.Pos
}

type summaryImpure struct{ msg string }

// pcHash is a 128-bit rolling hash of a literal sequence.
type pcHash struct{ a, b uint64 }

func (h pcHash) add(l Lit) pcHash {
	x := uint64(int64(l))
	h.a = (h.a ^ x) * 1099511628211
	h.a ^= h.a >> 29
	h.b = (h.b+x)*0x9E3779B97F4A7C15 + 0x7F4A7C15
	h.b ^= h.b >> 31
	return h
}

func (h pcHash) key(n int) string {
	return fmt.Sprintf("%x.%x.%d", h.a, h.b, n)
}

type dctx struct {
	prefix    []bool
	pos       int
	decisions []bool
	work      *[][]bool
}

type Observation struct {
	Label string
	V     Value
}

type Violation struct {
	Kind     string            `json:"kind"` // assert | panic | unwind
	ID       string            `json:"id"`
	Pos      string            `json:"pos,omitempty"`
	Msg      string            `json:"msg,omitempty"`
	Model    map[string]uint64 `json:"model"`
	Observed map[string]string `json:"observed,omitempty"`
	Path     string            `json:"path,omitempty"`
}

type Witness struct {
	Cover    string            `json:"cover,omitempty"`
	Model    map[string]uint64 `json:"model"`
	Observed map[string]string `json:"observed,omitempty"`
	Outcome  string            `json:"outcome"`
}

type JobResult struct {
	Harness      string            `json:"harness"`
	Params       map[string]int    `json:"params"`
	Paths        int               `json:"paths"`
	Outcomes     map[string]int    `json:"outcomes"`
	Decisions    int               `json:"decisions"`
	Obligations  int               `json:"obligations"`
	Discharged   int               `json:"discharged"`
	Undischarged []string          `json:"undischarged,omitempty"`
	Violations   []Violation       `json:"violations,omitempty"`
	Covers       map[string]int    `json:"covers"`
	Witnesses    []Witness         `json:"witnesses,omitempty"`
	OutsideBound map[string]int    `json:"outside_bound,omitempty"`
	Merges       int               `json:"merges"`
	TableDecisions int             `json:"table_decisions"`
	BranchSites  map[string]int    `json:"branch_sites,omitempty"`
	Summaries    int               `json:"summaries"`
	SummaryHits  int               `json:"summary_hits"`
	SummaryPaths int               `json:"summary_paths"`
	ImpureFalls  map[string]int    `json:"impure_fallbacks,omitempty"`
	GlobalWrites map[string]int    `json:"global_writes,omitempty"`
	Functions    map[string]int    `json:"functions,omitempty"`
	Stubs        map[string]int    `json:"stubs,omitempty"`
	Queries      int               `json:"queries"`
	QSat         int               `json:"q_sat"`
	QUnsat       int               `json:"q_unsat"`
	QUnknown     int               `json:"q_unknown"`
	SolverTimeS  float64           `json:"solver_time_s"`
	WallS        float64           `json:"wall_s"`
	Complete     bool              `json:"complete"`
	NotRun       bool              `json:"not_run,omitempty"`     // the run's time budget was used up before this job started
	CutByBudget  bool              `json:"cut_by_budget,omitempty"` // the run's time budget ended this job early: what it explored counts, the rest is outside the bound
	Error        string            `json:"error,omitempty"`
	SolverErrors []string          `json:"solver_errors,omitempty"`
	Notes        map[string]string `json:"notes,omitempty"`
}

type Run struct {
	eng   *Engine
	job   *Job
	res   *JobResult
	ctx   *dctx
	pc    []Lit
	pcT   []*Term
	pcH   []pcHash // pcH[i] hashes pc[:i+1] (order-dependent; paths rebuild pc in the same order)
	pcP   []int    // pcP[i] = solver prefix id of pc[:i+1]
	pcSet map[Lit]bool
	uf    *ufState // variable components of the path condition (for summary memo keys)
	model Model
	memo  map[int]uint64

	steps    int
	depth    int
	barrier  int // objects with ID <= barrier are read-only while > 0
	obs      []Observation
	sumCount int
	inSum    int
	maxSteps int
	unwind   int
	maxDepth int
	mapPerm  bool
	frames   []*frame

	dom            map[int]byteSet
	entangled      map[int]bool
	merging        int
	mergePred      *Term
	initMode       bool
	locks          map[string]int
	opaqueBuilders map[*Object]bool
	frozeAt        int
	frozenWrites   int
	// shared-state discipline (C05/C18 concurrency clause, decided sequentially): objects with an ID up to
	// shareAt existed when the harness called vShareBarrier and stand for state that other goroutines can reach.
	shareAt        int
	wlocks         int            // exclusive locks currently held
	anyLocks       int            // locks of any kind currently held
	atomicDepth    int            // inside a sync/atomic operation
	sharedWritten  map[int]string // shared object -> position of a write to it
	unlockedWrites []string       // writes to shared objects with no exclusive lock held
	unlockedReads  map[int]string // shared object -> position of a read with no lock held
}

func (r *Run) end(kind OutcomeKind, pos token.Pos, format string, args ...interface{}) {
	panic(pathEnd{kind: kind, msg: fmt.Sprintf(format, args...), pos: pos})
}

func (r *Run) unsupported(format string, args ...interface{}) {
	var pos token.Pos
	if len(r.frames) > 0 {
		pos = r.frames[len(r.frames)-1].pos
	}
	panic(pathEnd{kind: OutUnsupported, msg: fmt.Sprintf(format, args...), pos: pos})
}

func (r *Run) lit(c *Term, positive bool) Lit { return r.eng.solver.LitOf(c, positive) }

func (r *Run) pushPC(c *Term, positive bool) {
	if c.Op == OpNot {
		r.pushPC(c.A[0], !positive)
		return
	}
	l := r.lit(c, positive)
	if r.pcSet == nil {
		r.pcSet = map[Lit]bool{}
	}
	if r.pcSet[l] {
		return // already a conjunct of the path condition
	}
	r.pcSet[l] = true
	r.noteConjunct(c, positive)
	var prev pcHash
	if n := len(r.pc); n > 0 && len(r.pcH) >= n {
		prev = r.pcH[n-1]
	}
	r.pcH = append(r.pcH[:len(r.pc)], prev.add(l))
	r.pc = append(r.pc, l)
	r.ufPush(c, l)
	if positive {
		r.pcT = append(r.pcT, c)
	} else {
		r.pcT = append(r.pcT, r.eng.tt.Not(c))
	}
}

func (r *Run) evalBool(c *Term) bool {
	if r.memo == nil {
		r.memo = map[int]uint64{}
	}
	return r.eng.tt.Eval(c, r.model, r.memo) == 1
}

func (r *Run) setModel(m Model) {
	r.model = m
	r.memo = nil
}

func (r *Run) check(extra *Term, positive bool, wantModel bool) (Result, Model) {
	if debugDefs {
		fn := ""
		if len(r.frames) > 0 {
			fn = r.frames[len(r.frames)-1].fn.Name()
		}
		r.eng.solver.where = r.eng.posString(r.curPos()) + " " + fn
	}
	var h pcHash
	if n := len(r.pc); n > 0 {
		h = r.pcH[n-1]
	}
	var el Lit
	if extra != nil {
		el = r.lit(extra, positive)
		h = h.add(el)
	}
	return r.eng.solver.CheckLits(r.pc, el, wantModel, h.key(len(r.pc)))
}

// truncatePC drops the conjuncts after the first n.
func (r *Run) truncatePC(n int) {
	for _, l := range r.pc[n:] {
		delete(r.pcSet, l)
	}
	r.ufTruncate(n)
	r.pc = r.pc[:n]
	r.pcT = r.pcT[:n]
	if len(r.pcH) > n {
		r.pcH = r.pcH[:n]
	}
	if len(r.pcP) > n {
		r.pcP = r.pcP[:n]
	}
}

// Branch decides a symbolic condition, forking when both sides are feasible.
func (r *Run) Branch(c *Term) bool {
	if c.W != 0 {
		panic("Branch on non-bool")
	}
	if c.IsConst() {
		return c.K == 1
	}
	if r.merging > 0 {
		panic(mergeAbort{})
	}
	if r.pcSet != nil {
		if r.pcSet[r.lit(c, true)] {
			return true
		}
		if r.pcSet[r.lit(c, false)] {
			return false
		}
	}
	ctx := r.ctx
	if ctx.pos < len(ctx.prefix) {
		d := ctx.prefix[ctx.pos]
		ctx.pos++
		ctx.decisions = append(ctx.decisions, d)
		r.pushPC(c, d)
		if r.model != nil && r.evalBool(c) != d {
			r.setModel(nil)
		}
		return d
	}
	if r.inSum == 0 || true {
		if ct, cf, v, ok := r.byteDecision(c); ok {
			ctx.pos++
			r.res.Decisions++
			r.res.TableDecisions++
			var first bool
			switch {
			case ct && cf:
				first = true
				if r.model != nil {
					first = r.evalBool(c)
				}
				r.pushAlt(!first)
			case ct:
				first = true
			case cf:
				first = false
			default:
				r.end(OutInfeasible, 0, "byte domain empty")
			}
			ctx.decisions = append(ctx.decisions, first)
			r.pushPC(c, first)
			r.patchModel(v)
			return first
		}
	}
	ctx.pos++
	r.res.Decisions++
	if traceBranches {
		fn := ""
		if len(r.frames) > 0 {
			fn = r.frames[len(r.frames)-1].fn.String()
		}
		r.res.BranchSites[r.eng.posString(r.curPos())+" "+fn]++
	}
	var first bool
	if r.model != nil {
		first = r.evalBool(c)
		res, _ := r.check(c, !first, false)
		if res != Unsat {
			if res == Unknown {
				r.res.OutsideBound["unknown_feasibility"]++
			}
			r.pushAlt(!first)
		}
	} else {
		res, m := r.check(c, true, true)
		switch res {
		case Sat:
			first = true
			r.setModel(m)
			res2, _ := r.check(c, false, false)
			if res2 != Unsat {
				if res2 == Unknown {
					r.res.OutsideBound["unknown_feasibility"]++
				}
				r.pushAlt(false)
			}
		case Unsat:
			first = false
		default:
			r.res.OutsideBound["unknown_feasibility"]++
			first = true
			r.pushAlt(false)
		}
	}
	ctx.decisions = append(ctx.decisions, first)
	r.pushPC(c, first)
	return first
}

func (r *Run) pushAlt(d bool) {
	ctx := r.ctx
	alt := make([]bool, len(ctx.decisions)+1)
	copy(alt, ctx.decisions)
	alt[len(ctx.decisions)] = d
	*ctx.work = append(*ctx.work, alt)
}

// Assume extends the path condition; an infeasible assumption ends the path.
func (r *Run) Assume(c *Term) {
	if c.IsTrue() {
		return
	}
	if c.IsFalse() {
		r.end(OutInfeasible, 0, "assume false")
	}
	if r.model != nil && r.evalBool(c) {
		r.pushPC(c, true)
		return
	}
	if ct, _, v, ok := r.byteDecision(c); ok {
		if !ct {
			r.end(OutInfeasible, 0, "assumption infeasible (byte domain)")
		}
		r.pushPC(c, true)
		r.patchModel(v)
		return
	}
	res, m := r.check(c, true, true)
	switch res {
	case Unsat:
		r.end(OutInfeasible, 0, "assumption infeasible")
	case Sat:
		r.setModel(m)
	default:
		r.res.OutsideBound["unknown_feasibility"]++
		r.setModel(nil)
	}
	r.pushPC(c, true)
}

func (r *Run) ensureModel() Model {
	if r.model != nil {
		return r.model
	}
	res, m := r.check(nil, true, true)
	if res == Sat {
		r.setModel(m)
		return m
	}
	return nil
}

func (r *Run) observedUnder(m Model) map[string]string {
	out := map[string]string{}
	memo := map[int]uint64{}
	for _, o := range r.obs {
		out[o.Label] = r.concretize(o.V, m, memo)
	}
	return out
}

// concretize renders a value under a model in the same textual form as the
// native runtime's vObserve.
func (r *Run) concretize(v Value, m Model, memo map[int]uint64) string {
	tt := r.eng.tt
	switch x := v.(type) {
	case *Term:
		k := tt.Eval(x, m, memo)
		if x.W == 0 {
			if k == 1 {
				return "true"
			}
			return "false"
		}
		return fmt.Sprint(sext64(k, x.W))
	case StrV:
		if x.Opaque {
			return "<opaque>"
		}
		var sb strings.Builder
		for _, b := range x.B {
			sb.WriteByte(byte(tt.Eval(b, m, memo)))
		}
		return fmt.Sprintf("%q", sb.String())
	case TupleV:
		var parts []string
		for _, e := range x {
			parts = append(parts, r.concretize(e, m, memo))
		}
		return "(" + strings.Join(parts, ",") + ")"
	}
	return "<" + fmt.Sprintf("%T", v) + ">"
}

func copyModel(m Model) map[string]uint64 {
	out := make(map[string]uint64, len(m))
	for k, v := range m {
		out[k] = v
	}
	return out
}

func (r *Run) decisionString() string {
	var sb strings.Builder
	for _, d := range r.ctx.decisions {
		if d {
			sb.WriteByte('1')
		} else {
			sb.WriteByte('0')
		}
	}
	return sb.String()
}

// Assert is an obligation: pc ∧ ¬c must be unsatisfiable.
func (r *Run) Assert(c *Term, id string) {
	r.res.Obligations++
	if c.IsTrue() {
		r.res.Discharged++
		return
	}
	res, m := r.check(c, false, true)
	switch res {
	case Unsat:
		r.res.Discharged++
	case Sat:
		if len(r.res.Violations) < r.job.MaxViolations {
			r.res.Violations = append(r.res.Violations, Violation{
				Kind: "assert", ID: id, Model: copyModel(m), Observed: r.observedUnder(m), Path: r.decisionString(),
			})
		} else {
			r.res.OutsideBound["violations_not_recorded"]++
		}
	default:
		if len(r.res.Undischarged) < 50 {
			r.res.Undischarged = append(r.res.Undischarged, id)
		}
	}
	// Continue on the side where the assertion holds.
	if c.IsFalse() {
		r.end(OutAssertFail, 0, "assert %s always fails", id)
	}
	if res == Unsat {
		return // c is implied; no need to extend pc
	}
	if r.model != nil && !r.evalBool(c) {
		r.setModel(nil)
	}
	res2, _ := r.check(c, true, false)
	if res2 == Unsat {
		r.end(OutAssertFail, 0, "assert %s fails on whole path", id)
	}
	r.pushPC(c, true)
}

func (r *Run) Cover(c *Term, id string) {
	if _, ok := r.res.Covers[id]; !ok {
		r.res.Covers[id] = 0
	}
	if c.IsFalse() {
		return
	}
	first := r.res.Covers[id] == 0
	if !first {
		// one witness is enough; count cheaply when the model already shows it
		if r.model != nil && r.evalBool(c) {
			r.res.Covers[id]++
		}
		return
	}
	res, m := r.check(c, true, true)
	if res == Sat {
		r.res.Covers[id]++
		if len(r.res.Witnesses) < r.job.MaxWitnesses {
			r.res.Witnesses = append(r.res.Witnesses, Witness{Cover: id, Model: copyModel(m), Observed: r.observedUnder(m), Outcome: "cover"})
		}
	}
}

// Concretize forks over the feasible values of t inside [lo,hi] in a
// deterministic order and returns the chosen concrete value.
func (r *Run) Concretize(t *Term, lo, hi int64, signed bool) int64 {
	tt := r.eng.tt
	if t.IsConst() {
		if signed {
			return sext64(t.K, t.W)
		}
		return int64(t.K)
	}
	lt := func(a *Term, k int64) *Term {
		kc := tt.Const(t.W, uint64(k))
		if signed {
			return tt.Slt(a, kc)
		}
		return tt.Ult(a, kc)
	}
	for hi-lo >= 4 {
		mid := lo + (hi-lo+1)/2
		if r.Branch(lt(t, mid)) {
			hi = mid - 1
		} else {
			lo = mid
		}
	}
	for v := lo; v < hi; v++ {
		if r.Branch(tt.Eq(t, tt.Const(t.W, uint64(v)))) {
			return v
		}
	}
	return hi
}

// ---- summaries

type sumCase struct {
	cond *Term
	val  Value
	kind OutcomeKind
	msg  string
	pos  token.Pos
}

type sumMemo struct {
	val      Value
	panicC   *Term
	panicMsg string
	panicPos token.Pos
	outside  *Term
	outMsg   string
	paths    int
}

func (r *Run) condSince(base int) *Term {
	tt := r.eng.tt
	c := tt.True
	for _, t := range r.pcT[base:] {
		c = tt.And(c, t)
	}
	return c
}

// summarise runs fn(args) over all its feasible paths under the current path
// condition and merges the scalar results. ok=false means the callee wrote to
// pre-existing state (or returned a non-scalar) and must be called normally.
func (r *Run) summarise(call func() Value, name string, args []Value, env []Value) (Value, bool) {
	tt := r.eng.tt
	key := ""
	if fp, vars := r.fingerprint(name, args, env); fp != "" {
		key = fp + "#" + r.relevantPC(vars)
		if sm, ok := r.eng.sumMemo[key]; ok {
			r.res.SummaryHits++
			if sm == nil {
				return nil, false // known impure / unmergeable
			}
			return r.applySummary(sm, name), true
		}
	}
	saved := r.ctx
	basePC := len(r.pc)
	baseModel := r.model
	savedBarrier := r.barrier
	savedObs := len(r.obs)
	savedFrames := len(r.frames)
	savedDepth := r.depth
	r.barrier = r.eng.nextObj
	r.inSum++
	savedDom := make(map[int]byteSet, len(r.dom))
	for k, v := range r.dom {
		savedDom[k] = v
	}
	savedEnt := make(map[int]bool, len(r.entangled))
	for k, v := range r.entangled {
		savedEnt[k] = v
	}
	restoreDom := func() {
		r.dom = make(map[int]byteSet, len(savedDom))
		for k, v := range savedDom {
			r.dom[k] = v
		}
		r.entangled = make(map[int]bool, len(savedEnt))
		for k, v := range savedEnt {
			r.entangled[k] = v
		}
	}
	work := [][]bool{{}}
	var cases []sumCase
	impure := false
	restore := func() {
		r.ctx = saved
		r.truncatePC(basePC)
		restoreDom()
		r.setModel(baseModel)
		r.obs = r.obs[:savedObs]
		r.frames = r.frames[:savedFrames]
		r.depth = savedDepth
	}
	for len(work) > 0 && !impure {
		pfx := work[len(work)-1]
		work = work[:len(work)-1]
		r.ctx = &dctx{prefix: pfx, work: &work}
		r.truncatePC(basePC)
		restoreDom()
		r.setModel(baseModel)
		r.frames = r.frames[:savedFrames]
		r.depth = savedDepth
		var sc sumCase
		func() {
			defer func() {
				if x := recover(); x != nil {
					switch pe := x.(type) {
					case pathEnd:
						sc = sumCase{kind: pe.kind, msg: pe.msg, pos: pe.pos}
					case summaryImpure:
						impure = true
						r.res.ImpureFalls[name+": "+pe.msg]++
					default:
						panic(x)
					}
				}
			}()
			v := call()
			sc = sumCase{kind: OutOK, val: v}
		}()
		if impure {
			break
		}
		if sc.kind == OutInfeasible {
			continue
		}
		sc.cond = r.condSince(basePC)
		cases = append(cases, sc)
		r.res.SummaryPaths++
		if r.eng.deadlineExceeded() {
			r.inSum--
			r.barrier = savedBarrier
			restore()
			r.end(OutBudget, 0, "time budget exhausted inside summary of %s", name)
		}
	}
	r.inSum--
	r.barrier = savedBarrier
	restore()
	if impure {
		if key != "" {
			r.eng.sumMemo[key] = nil
		}
		return nil, false
	}
	r.res.Summaries++
	sm := &sumMemo{panicC: tt.False, outside: tt.False, paths: len(cases)}
	// Merge.
	var okCases []sumCase
	for _, c := range cases {
		switch c.kind {
		case OutOK:
			okCases = append(okCases, c)
		case OutPanic:
			sm.panicC = tt.Or(sm.panicC, c.cond)
			if sm.panicMsg == "" {
				sm.panicMsg, sm.panicPos = c.msg, c.pos
			}
		default:
			sm.outside = tt.Or(sm.outside, c.cond)
			if sm.outMsg == "" {
				sm.outMsg = c.kind.String() + ": " + c.msg
			}
		}
	}
	if len(okCases) > 0 {
		merged := okCases[len(okCases)-1].val
		for i := len(okCases) - 2; i >= 0; i-- {
			mv, ok := r.mergeValues(okCases[i].cond, okCases[i].val, merged)
			if !ok {
				r.res.ImpureFalls[name+": non-mergeable result"]++
				return nil, false
			}
			merged = mv
		}
		sm.val = merged
	}
	if key != "" {
		r.eng.sumMemo[key] = sm
	}
	return r.applySummary(sm, name), true
}

func (r *Run) applySummary(sm *sumMemo, name string) Value {
	tt := r.eng.tt
	if !sm.panicC.IsFalse() {
		if r.Branch(sm.panicC) {
			r.end(OutPanic, sm.panicPos, "%s", sm.panicMsg)
		}
	}
	if !sm.outside.IsFalse() {
		r.res.OutsideBound["in summary of "+name+": "+sm.outMsg]++
		r.Assume(tt.Not(sm.outside))
	}
	if sm.val == nil {
		r.end(OutInfeasible, 0, "summary of %s has no normal path", name)
	}
	return sm.val
}

// mergeValues builds ite(c, a, b) for scalars and tuples of scalars.
func (r *Run) mergeValues(c *Term, a, b Value) (Value, bool) {
	tt := r.eng.tt
	switch x := a.(type) {
	case *Term:
		y, ok := b.(*Term)
		if !ok || y.W != x.W {
			return nil, false
		}
		return tt.Ite(c, x, y), true
	case TupleV:
		y, ok := b.(TupleV)
		if !ok || len(x) != len(y) {
			return nil, false
		}
		out := make(TupleV, len(x))
		for i := range x {
			v, ok := r.mergeValues(c, x[i], y[i])
			if !ok {
				return nil, false
			}
			out[i] = v
		}
		return out, true
	case StrV:
		y, ok := b.(StrV)
		if !ok || len(x.B) != len(y.B) || x.Opaque || y.Opaque {
			return nil, false
		}
		out := make([]*Term, len(x.B))
		for i := range x.B {
			out[i] = tt.Ite(c, x.B[i], y.B[i])
		}
		return StrV{B: out}, true
	case nil:
		if b == nil {
			return nil, true
		}
	case IfaceV:
		y, ok := b.(IfaceV)
		if ok && x.T == nil && y.T == nil {
			return x, true
		}
	case PtrV:
		y, ok := b.(PtrV)
		if ok && x.Obj == y.Obj && samePath(x.Path, y.Path) && x.Sym == nil && y.Sym == nil {
			return x, true
		}
	}
	return nil, false
}

// ---- job driver

func (e *Engine) deadlineExceeded() bool {
	return !e.deadline.IsZero() && time.Now().After(e.deadline)
}

func (e *Engine) runJob(job *Job) *JobResult {
	start := time.Now()
	res := &JobResult{
		Harness: job.Harness, Params: job.Params,
		Outcomes: map[string]int{}, Covers: map[string]int{}, OutsideBound: map[string]int{},
		ImpureFalls: map[string]int{}, GlobalWrites: map[string]int{}, Functions: map[string]int{}, Stubs: map[string]int{},
		Notes: map[string]string{}, BranchSites: map[string]int{},
	}
	e.curRes = res
	e.solver.freshContext()
	e.sumMemo = map[string]*sumMemo{}
	e.solver.cache = map[string]Result{}
	if job.TimeoutS > 0 {
		e.deadline = start.Add(time.Duration(job.TimeoutS) * time.Second)
	} else {
		e.deadline = time.Time{}
	}
	cutAt := time.Time{}
	if !e.runEnd.IsZero() && (e.deadline.IsZero() || e.runEnd.Before(e.deadline)) {
		// the whole run's budget ends before this job's own: the job is cut there
		e.deadline = e.runEnd
		cutAt = e.runEnd
	}
	st0 := e.solver.Stats
	fn := e.lookupHarness(job.Harness)
	if fn.Fn == nil {
		res.Error = "harness not found: " + job.Harness
		return res
	}
	work := [][]bool{{}}
	res.Complete = true
	for len(work) > 0 {
		if e.deadlineExceeded() || (job.MaxPaths > 0 && res.Paths >= job.MaxPaths) {
			res.Complete = false
			res.Notes["incomplete"] = fmt.Sprintf("%d prefixes left unexplored", len(work))
			break
		}
		pfx := work[len(work)-1]
		work = work[:len(work)-1]
		r := &Run{eng: e, job: job, res: res, ctx: &dctx{prefix: pfx, work: &work},
			maxSteps: job.MaxSteps, unwind: job.Unwind, maxDepth: job.MaxDepth,
			dom: map[int]byteSet{}, entangled: map[int]bool{}}
		e.resetHeap()
		out := r.runPath(fn)
		res.Paths++
		res.Outcomes[out.kind.String()]++
		switch out.kind {
		case OutPanic, OutUnwind:
			isViol := (out.kind == OutPanic && job.PanicIsViolation) || (out.kind == OutUnwind && job.UnwindIsViolation)
			posS := e.posString(out.pos)
			if isViol {
				if len(res.Violations) < job.MaxViolations {
					m := r.ensureModel()
					if m != nil {
						res.Violations = append(res.Violations, Violation{Kind: out.kind.String(), ID: out.kind.String() + "@" + posS, Pos: posS, Msg: out.msg,
							Model: copyModel(m), Observed: r.observedUnder(m), Path: r.decisionString()})
					} else {
						res.Undischarged = append(res.Undischarged, "model for "+out.kind.String()+"@"+posS)
					}
				} else {
					res.OutsideBound["violations_not_recorded"]++
				}
			} else {
				res.OutsideBound[out.kind.String()+"@"+posS+": "+out.msg]++
			}
		case OutUnsupported:
			res.OutsideBound["unsupported@"+e.posString(out.pos)+": "+out.msg]++
		case OutBudget:
			res.Complete = false
			res.Notes["budget"] = out.msg
		case OutOK:
			if len(res.Witnesses) < job.MaxWitnesses && (res.Paths%job.WitnessEvery == 1 || job.WitnessEvery <= 1) {
				if m := r.ensureModel(); m != nil {
					res.Witnesses = append(res.Witnesses, Witness{Model: copyModel(m), Observed: r.observedUnder(m), Outcome: "ok"})
				}
			}
		}
	}
	if !res.Complete && !cutAt.IsZero() && !time.Now().Before(cutAt) {
		res.CutByBudget = true
	}
	st1 := e.solver.Stats
	res.Queries = st1.Queries - st0.Queries
	res.QSat = st1.Sat - st0.Sat
	res.QUnsat = st1.UnsatN - st0.UnsatN
	res.QUnknown = st1.UnknownN - st0.UnknownN
	res.SolverTimeS = (st1.Time - st0.Time).Seconds()
	res.WallS = time.Since(start).Seconds()
	if len(st1.Errors) > len(st0.Errors) {
		res.SolverErrors = st1.Errors[len(st0.Errors):]
	}
	// Keep function list compact.
	if len(res.Functions) > 400 {
		type kv struct {
			k string
			v int
		}
		var kvs []kv
		for k, v := range res.Functions {
			kvs = append(kvs, kv{k, v})
		}
		sort.Slice(kvs, func(i, j int) bool { return kvs[i].v > kvs[j].v })
		res.Functions = map[string]int{}
		for _, x := range kvs[:400] {
			res.Functions[x.k] = x.v
		}
	}
	return res
}

func (r *Run) runPath(fn FuncV) (out pathEnd) {
	defer func() {
		if x := recover(); x != nil {
			if pe, ok := x.(pathEnd); ok {
				out = pe
				return
			}
			if si, ok := x.(summaryImpure); ok {
				out = pathEnd{kind: OutUnsupported, msg: "stray summaryImpure: " + si.msg}
				return
			}
			panic(x)
		}
	}()
	r.callValue(fn, nil)
	return pathEnd{kind: OutOK}
}
