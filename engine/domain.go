package main

// Exact feasibility for conditions over a single symbolic byte. Parser code
// branches almost only on the class of one input byte; as long as that byte
// occurs in no multi-variable conjunct of the path condition, the set of its
// feasible values is the intersection of the truth tables of the conjuncts
// that mention it, so both sides of a new single-byte condition are decided
// by a 256-entry table instead of a solver query.

type byteSet [4]uint64

func (b *byteSet) empty() bool { return b[0]|b[1]|b[2]|b[3] == 0 }
func (b *byteSet) and(o *byteSet) byteSet {
	return byteSet{b[0] & o[0], b[1] & o[1], b[2] & o[2], b[3] & o[3]}
}
func (b *byteSet) andNot(o *byteSet) byteSet {
	return byteSet{b[0] &^ o[0], b[1] &^ o[1], b[2] &^ o[2], b[3] &^ o[3]}
}
func (b *byteSet) first() uint64 {
	for w := 0; w < 4; w++ {
		if b[w] != 0 {
			for i := 0; i < 64; i++ {
				if b[w]&(1<<uint(i)) != 0 {
					return uint64(w*64 + i)
				}
			}
		}
	}
	return 0
}
func (b *byteSet) has(k uint64) bool { return b[k/64]&(1<<(k%64)) != 0 }

var fullByteSet = byteSet{^uint64(0), ^uint64(0), ^uint64(0), ^uint64(0)}

// termVars returns the variables a term depends on (memoised).
func (e *Engine) termVars(t *Term) []*Term {
	if t.Op == OpConst {
		return nil
	}
	if vs, ok := e.varsMemo[t.ID]; ok {
		return vs
	}
	var out []*Term
	if t.Op == OpVar {
		out = []*Term{t}
	} else {
		seen := map[int]bool{}
		for _, a := range t.A {
			for _, v := range e.termVars(a) {
				if !seen[v.ID] {
					seen[v.ID] = true
					out = append(out, v)
				}
			}
		}
	}
	e.varsMemo[t.ID] = out
	return out
}

// truthTable evaluates a Bool term over all values of its only variable.
func (e *Engine) truthTable(c *Term, v *Term) *byteSet {
	if m, ok := e.tableMemo[c.ID]; ok {
		return m
	}
	var bs byteSet
	model := Model{}
	for k := uint64(0); k < 256; k++ {
		model[v.Name] = k
		if e.tt.Eval(c, model, map[int]uint64{}) == 1 {
			bs[k/64] |= 1 << (k % 64)
		}
	}
	e.tableMemo[c.ID] = &bs
	return &bs
}

// singleByte reports the variable when c depends on exactly one 8-bit variable.
func (e *Engine) singleByte(c *Term) *Term {
	vs := e.termVars(c)
	if len(vs) == 1 && vs[0].W == 8 {
		return vs[0]
	}
	return nil
}

// noteConjunct updates the per-path byte domains for a new pc conjunct.
func (r *Run) noteConjunct(c *Term, positive bool) {
	e := r.eng
	if v := e.singleByte(c); v != nil {
		d, ok := r.dom[v.ID]
		if !ok {
			d = fullByteSet
		}
		tbl := e.truthTable(c, v)
		if positive {
			d = d.and(tbl)
		} else {
			d = d.andNot(tbl)
		}
		r.dom[v.ID] = d
		return
	}
	for _, v := range e.termVars(c) {
		r.entangled[v.ID] = true
	}
}

// byteDecision tries to decide feasibility of both sides of c from the byte
// domains. ok=false means the solver has to be asked.
func (r *Run) byteDecision(c *Term) (canTrue, canFalse bool, v *Term, ok bool) {
	e := r.eng
	v = e.singleByte(c)
	if v == nil || r.entangled[v.ID] {
		return false, false, nil, false
	}
	d, has := r.dom[v.ID]
	if !has {
		d = fullByteSet
	}
	tbl := e.truthTable(c, v)
	t := d.and(tbl)
	f := d.andNot(tbl)
	return !t.empty(), !f.empty(), v, true
}

// patchModel moves v to a value satisfying the (already updated) domain.
func (r *Run) patchModel(v *Term) {
	if r.model == nil {
		return
	}
	d := r.dom[v.ID]
	if cur, ok := r.model[v.Name]; ok && d.has(cur&0xff) {
		return
	}
	if d.empty() {
		r.setModel(nil)
		return
	}
	nm := make(Model, len(r.model))
	for k, x := range r.model {
		nm[k] = x
	}
	nm[v.Name] = d.first()
	r.setModel(nm)
}
