package main

import (
	"encoding/json"
	"flag"
	"fmt"
	"go/token"
	"go/types"
	"os"
	"path/filepath"
	"runtime/debug"
	"runtime/pprof"
	"sort"
	"strings"
	"sync"
	"time"

	"golang.org/x/tools/go/packages"
	"golang.org/x/tools/go/ssa"
	"golang.org/x/tools/go/ssa/ssautil"
)

type Job struct {
	Harness           string         `json:"harness"`
	Params            map[string]int `json:"params"`
	Summarise         []string       `json:"summarise"`
	Unwind            int            `json:"unwind"`
	MaxSteps          int            `json:"max_steps"`
	MaxDepth          int            `json:"max_depth"`
	MaxPaths          int            `json:"max_paths"`
	TimeoutS          int            `json:"timeout_s"`
	PanicIsViolation  bool           `json:"panic_is_violation"`
	UnwindIsViolation bool           `json:"unwind_is_violation"`
	MaxViolations     int            `json:"max_violations"`
	MaxWitnesses      int            `json:"max_witnesses"`
	WitnessEvery      int            `json:"witness_every"`
	MapPermutations   bool           `json:"map_permutations"`
	TightAppend       bool           `json:"tight_append"`
	Tag               string         `json:"tag"`
}

type Program struct {
	prog     *ssa.Program
	fset     *token.FileSet
	pkg      *ssa.Package // package under test (with harness overlay)
	allPkgs  []*ssa.Package
	loadTime time.Duration
}

type dirtyObj struct {
	obj *Object
	val Value
}
type dirtyMap struct {
	m    *MapObj
	keys []Value
	vals []Value
}

type Engine struct {
	*Program
	tt          *TermTable
	solver      *Solver
	globals     map[*ssa.Global]*Object
	inited      map[*ssa.Package]bool
	nextObj     int
	heapBase    int
	dirtyObjs   []dirtyObj
	dirtyMaps   []dirtyMap
	summarise   map[string]bool
	sumMemo     map[string]*sumMemo
	deadline    time.Time
	runEnd      time.Time // end of the whole run's time budget (zero = none)
	curRes      *JobResult
	recordFuncs bool
	choiceCount int
	initDepth   int

	varsMemo        map[int][]*Term
	tableMemo       map[int]*byteSet
	fnInfos         map[*ssa.Function]*fnInfo
	noMerge         bool
	decProv         map[int][]*Term
	maxFormatDigits int
}

func loadProgram(dir string, harnessDir string, tests bool, buildTags string) (*Program, error) {
	start := time.Now()
	overlay := map[string][]byte{}
	pkgName := ""
	if harnessDir != "" {
		ents, err := os.ReadDir(harnessDir)
		if err != nil {
			return nil, err
		}
		for _, ent := range ents {
			n := ent.Name()
			if !strings.HasSuffix(n, ".go") || strings.HasSuffix(n, "_native.go") || strings.HasSuffix(n, "_test.go") {
				continue
			}
			b, err := os.ReadFile(filepath.Join(harnessDir, n))
			if err != nil {
				return nil, err
			}
			overlay[filepath.Join(dir, "zz_verif_"+n)] = b
		}
	}
	_ = pkgName
	cfg := &packages.Config{
		Mode:    packages.LoadAllSyntax,
		Dir:     dir,
		Overlay: overlay,
		Tests:   tests,
		Env:     append(os.Environ(), "GOFLAGS=-mod=mod", "GOPROXY=off", "GOSUMDB=off", "GOTOOLCHAIN=local"),
	}
	if buildTags != "" {
		cfg.BuildFlags = []string{"-tags=" + buildTags}
	}
	pkgs, err := packages.Load(cfg, ".")
	if err != nil {
		return nil, err
	}
	var errs []string
	packages.Visit(pkgs, nil, func(p *packages.Package) {
		for _, e := range p.Errors {
			errs = append(errs, e.Error())
		}
	})
	if len(errs) > 0 {
		return nil, fmt.Errorf("load errors:\n%s", strings.Join(errs, "\n"))
	}
	prog, spkgs := ssautil.AllPackages(pkgs, ssa.InstantiateGenerics)
	prog.Build()
	var main *ssa.Package
	for i, p := range pkgs {
		// prefer the test variant when Tests is set (it includes _test.go files)
		if spkgs[i] == nil {
			continue
		}
		if tests {
			if strings.Contains(p.ID, "[") && !strings.HasSuffix(p.ID, ".test") && !strings.HasSuffix(p.PkgPath, "_test") {
				main = spkgs[i]
			}
		} else if main == nil {
			main = spkgs[i]
		}
	}
	if main == nil && len(spkgs) > 0 {
		main = spkgs[0]
	}
	if main == nil {
		return nil, fmt.Errorf("no package loaded from %s", dir)
	}
	return &Program{prog: prog, fset: prog.Fset, pkg: main, allPkgs: prog.AllPackages(), loadTime: time.Since(start)}, nil
}

func newEngine(p *Program, solverBin string, qtimeoutMs int) *Engine {
	tt := NewTermTable()
	e := &Engine{Program: p, tt: tt, globals: map[*ssa.Global]*Object{}, inited: map[*ssa.Package]bool{},
		summarise: map[string]bool{}, sumMemo: map[string]*sumMemo{}, recordFuncs: true,
		decProv: map[int][]*Term{}, maxFormatDigits: 6, fnInfos: map[*ssa.Function]*fnInfo{},
		varsMemo: map[int][]*Term{}, tableMemo: map[int]*byteSet{}}
	e.solver = NewSolver(tt, solverBin, qtimeoutMs)
	return e
}

func (e *Engine) stdFunc(pkgPath, name string) *ssa.Function {
	p := e.prog.ImportedPackage(pkgPath)
	if p == nil {
		for _, q := range e.allPkgs {
			if q.Pkg.Path() == pkgPath {
				p = q
				break
			}
		}
	}
	if p == nil {
		panic("package not loaded: " + pkgPath)
	}
	f := p.Func(name)
	if f == nil {
		panic("function not found: " + pkgPath + "." + name)
	}
	return f
}

func (e *Engine) lookupHarness(name string) FuncV {
	f := e.pkg.Func(name)
	if f == nil {
		return FuncV{}
	}
	return FuncV{Fn: f}
}

func (e *Engine) isHarnessRT(fn *ssa.Function) bool {
	if fn.Pkg != e.pkg {
		return false
	}
	pos := fn.Pos()
	if !pos.IsValid() {
		return false
	}
	return strings.HasSuffix(e.fset.Position(pos).Filename, "zz_verif_rt.go")
}

func (e *Engine) objName(o *Object) string {
	if o.Global != nil {
		return "global " + o.Global.String()
	}
	return fmt.Sprintf("obj%d (%s)", o.ID, o.T)
}

func (e *Engine) globalObject(r *Run, g *ssa.Global) *Object {
	if o, ok := e.globals[g]; ok {
		return o
	}
	et := g.Type().Underlying().(*types.Pointer).Elem()
	e.nextObj++
	o := &Object{ID: e.nextObj, T: et, Val: e.zero(et), Global: g}
	e.globals[g] = o
	if g.Pkg != nil && !e.inited[g.Pkg] {
		e.ensureInit(r, g.Pkg)
	} else if e.initDepth == 0 {
		o.Frozen = true
	}
	return o
}

// ensureInit runs a package initialiser concretely, best effort, once.
func (e *Engine) ensureInit(r *Run, pkg *ssa.Package) {
	if pkg == nil || e.inited[pkg] {
		return
	}
	e.inited[pkg] = true
	if pp := pkg.Pkg.Path(); strings.HasPrefix(pp, "deps.dev/api/") || strings.HasPrefix(pp, "google.golang.org/") {
		// generated protobuf bindings: their initialisers build descriptors by reflection and are
		// not needed to use the message structs as plain data
		return
	}
	initFn := pkg.Func("init")
	if initFn == nil || len(initFn.Blocks) == 0 {
		return
	}
	// Create all global objects of the package first.
	for _, m := range pkg.Members {
		if g, ok := m.(*ssa.Global); ok {
			if _, ok := e.globals[g]; !ok {
				et := g.Type().Underlying().(*types.Pointer).Elem()
				e.nextObj++
				e.globals[g] = &Object{ID: e.nextObj, T: et, Val: e.zero(et), Global: g}
			}
		}
	}
	res := e.curRes
	if res == nil {
		res = &JobResult{Outcomes: map[string]int{}, Covers: map[string]int{}, OutsideBound: map[string]int{},
			ImpureFalls: map[string]int{}, GlobalWrites: map[string]int{}, Functions: map[string]int{}, Stubs: map[string]int{}, BranchSites: map[string]int{}}
	}
	work := [][]bool{}
	ir := &Run{eng: e, job: &Job{}, res: res, ctx: &dctx{work: &work}, maxSteps: 50_000_000, unwind: 1 << 30, maxDepth: 200,
		dom: map[int]byteSet{}, entangled: map[int]bool{}}
	ir.initMode = true
	e.initDepth++
	saveRec := e.recordFuncs
	e.recordFuncs = false
	func() {
		defer func() {
			if x := recover(); x != nil {
				if pe, ok := x.(pathEnd); ok {
					if os.Getenv("GOSYM_DEBUG_INIT") != "" {
						fmt.Fprintf(os.Stderr, "init of %s ended early: %s %s at %s\n", pkg.Pkg.Path(), pe.kind, pe.msg, e.posString(pe.pos))
					}
					return
				}
				panic(x)
			}
		}()
		ir.interpret(initFn, nil, nil)
	}()
	e.recordFuncs = saveRec
	e.initDepth--
	if e.initDepth == 0 {
		e.freezeGlobals()
		if e.nextObj > e.heapBase {
			e.heapBase = e.nextObj
		}
	}
}

func (e *Engine) freezeGlobals() {
	seen := map[*Object]bool{}
	seenMap := map[*MapObj]bool{}
	var walk func(v Value)
	var walkObj func(o *Object)
	walkObj = func(o *Object) {
		if o == nil || seen[o] {
			return
		}
		seen[o] = true
		o.Frozen = true
		walk(o.Val)
	}
	walk = func(v Value) {
		switch x := v.(type) {
		case PtrV:
			walkObj(x.Obj)
		case SliceV:
			walkObj(x.Obj)
		case *AggV:
			for _, el := range x.E {
				walk(el)
			}
		case IfaceV:
			walk(x.V)
		case *MapObj:
			if x != nil && !seenMap[x] {
				seenMap[x] = true
				x.Frozen = true
				for i := range x.Keys {
					walk(x.Keys[i])
					walk(x.Vals[i])
				}
			}
		case FuncV:
			for _, el := range x.Env {
				walk(el)
			}
		case TupleV:
			for _, el := range x {
				walk(el)
			}
		}
	}
	for _, o := range e.globals {
		walkObj(o)
	}
}

func (e *Engine) noteFrozenWrite(r *Run, o *Object) {
	if e.initDepth > 0 {
		return
	}
	for _, d := range e.dirtyObjs {
		if d.obj == o {
			goto noted
		}
	}
	e.dirtyObjs = append(e.dirtyObjs, dirtyObj{o, o.Val})
noted:
	if r.res != nil {
		r.res.GlobalWrites[e.objName(o)+" at "+e.posString(r.curPos())]++
	}
}

func (e *Engine) noteFrozenMapWrite(r *Run, m *MapObj) {
	if e.initDepth > 0 {
		return
	}
	for _, d := range e.dirtyMaps {
		if d.m == m {
			goto noted
		}
	}
	e.dirtyMaps = append(e.dirtyMaps, dirtyMap{m, append([]Value(nil), m.Keys...), append([]Value(nil), m.Vals...)})
noted:
	if r.res != nil {
		r.res.GlobalWrites[fmt.Sprintf("frozen map#%d at %s", m.ID, e.posString(r.curPos()))]++
	}
}

func (e *Engine) resetHeap() {
	for _, d := range e.dirtyObjs {
		d.obj.Val = d.val
	}
	for _, d := range e.dirtyMaps {
		d.m.Keys, d.m.Vals = d.keys, d.vals
	}
	e.dirtyObjs, e.dirtyMaps = nil, nil
	e.nextObj = e.heapBase
}

// eagerInit initialises the packages under /repo and a few std packages so
// that initialisation never happens in the middle of a summary.
func (e *Engine) eagerInit() {
	want := map[string]bool{"unicode/utf8": true, "strconv": true, "sort": true, "strings": true, "errors": true, "unicode": true, "slices": true, "cmp": true, "math/bits": true}
	var pk []*ssa.Package
	for _, p := range e.allPkgs {
		path := p.Pkg.Path()
		if strings.HasPrefix(path, "deps.dev/util/") || want[path] {
			pk = append(pk, p)
		}
	}
	sort.Slice(pk, func(i, j int) bool { return pk[i].Pkg.Path() < pk[j].Pkg.Path() })
	for _, p := range pk {
		t0 := time.Now()
		e.ensureInit(nil, p)
		if os.Getenv("GOSYM_DEBUG_INITTIME") != "" {
			fmt.Fprintf(os.Stderr, "init %s: %v\n", p.Pkg.Path(), time.Since(t0))
		}
	}
}

type Output struct {
	Dir       string       `json:"dir"`
	LoadS     float64      `json:"load_s"`
	Results   []*JobResult `json:"results"`
	TotalS    float64      `json:"total_s"`
	Solver    string       `json:"solver"`
	GoVersion string       `json:"go_version"`
}

func main() {
	dir := flag.String("dir", "", "package directory under test")
	harness := flag.String("harness", "", "directory with harness .go files to overlay into the package")
	jobsFile := flag.String("jobs", "", "JSON file with a list of jobs")
	out := flag.String("out", "", "output JSON file")
	nworkers := flag.Int("j", 8, "parallel workers")
	solverBin := flag.String("solver", "z3", "solver binary")
	qtimeout := flag.Int("qtimeout", 20000, "per-query timeout (ms)")
	tests := flag.Bool("tests", false, "load test files too")
	tags := flag.String("tags", "", "build tags")
	dump := flag.String("dump", "", "write solver transcript of worker 0 here")
	cpuprof := flag.String("cpuprofile", "", "write a CPU profile here")
	budget := flag.Int("budget", 0, "time budget of the whole run in seconds (0 = none): when it is used up no further job is started and running jobs are cut")
	flag.Parse()
	if *cpuprof != "" {
		pf, _ := os.Create(*cpuprof)
		pprof.StartCPUProfile(pf)
		defer pprof.StopCPUProfile()
	}
	debug.SetGCPercent(800)

	var jobs []*Job
	b, err := os.ReadFile(*jobsFile)
	if err != nil {
		fmt.Fprintln(os.Stderr, err)
		os.Exit(2)
	}
	if err := json.Unmarshal(b, &jobs); err != nil {
		fmt.Fprintln(os.Stderr, "bad jobs file:", err)
		os.Exit(2)
	}
	start := time.Now()
	prog, err := loadProgram(*dir, *harness, *tests, *tags)
	if err != nil {
		fmt.Fprintln(os.Stderr, "LOAD ERROR:", err)
		os.Exit(3)
	}
	for _, j := range jobs {
		if j.Unwind == 0 {
			j.Unwind = 64
		}
		if j.MaxSteps == 0 {
			j.MaxSteps = 5_000_000
		}
		if j.MaxDepth == 0 {
			j.MaxDepth = 100
		}
		if j.MaxViolations == 0 {
			j.MaxViolations = 3
		}
		if j.MaxWitnesses == 0 {
			j.MaxWitnesses = 4
		}
		if j.WitnessEvery == 0 {
			j.WitnessEvery = 50
		}
	}
	results := make([]*JobResult, len(jobs))
	ch := make(chan int, len(jobs))
	for i := range jobs {
		ch <- i
	}
	close(ch)
	var wg sync.WaitGroup
	nw := *nworkers
	if nw > len(jobs) {
		nw = len(jobs)
	}
	for w := 0; w < nw; w++ {
		wg.Add(1)
		go func(w int) {
			defer wg.Done()
			e := newEngine(prog, *solverBin, *qtimeout)
			defer e.solver.Close()
			if w == 0 && *dump != "" {
				f, _ := os.Create(*dump)
				e.solver.dump = f
				defer f.Close()
			}
			e.eagerInit()
			for i := range ch {
				job := jobs[i]
				if *budget > 0 {
					e.runEnd = start.Add(time.Duration(*budget) * time.Second)
					if !time.Now().Before(e.runEnd) {
						results[i] = &JobResult{Harness: job.Harness, Params: job.Params, NotRun: true}
						continue
					}
				}
				e.summarise = map[string]bool{}
				for _, s := range job.Summarise {
					e.summarise[s] = true
				}
				func() {
					defer func() {
						if x := recover(); x != nil {
							results[i] = &JobResult{Harness: job.Harness, Params: job.Params, Error: fmt.Sprintf("engine panic: %v\n%s", x, debug.Stack())}
						}
					}()
					results[i] = e.runJob(job)
				}()
			}
		}(w)
	}
	wg.Wait()
	o := Output{Dir: *dir, LoadS: prog.loadTime.Seconds(), Results: results, TotalS: time.Since(start).Seconds(), Solver: *solverBin}
	ob, _ := json.MarshalIndent(o, "", " ")
	if *out == "" {
		os.Stdout.Write(ob)
	} else {
		os.WriteFile(*out, ob, 0o644)
	}
}
