package main

// Models of standard-library leaves (listed as "stubs" in evidence) and the
// harness runtime (vByte, vAssert, ...).

import (
	"fmt"
	"go/types"
	"strconv"
	"strings"

	"golang.org/x/tools/go/ssa"
)

type intrinsicFn func(r *Run, fn *ssa.Function, args []Value) Value

var intrinsics map[string]intrinsicFn
var harnessRT map[string]intrinsicFn

func init() {
	intrinsics = map[string]intrinsicFn{
		"strings.Index":              inStringsIndex,
		"strings.IndexByte":          inStringsIndexByte,
		"strings.LastIndex":          inStringsLastIndex,
		"strings.LastIndexByte":      inStringsLastIndexByte,
		"strings.Contains":           inStringsContains,
		"strings.ContainsRune":       inStringsContainsRune,
		"strings.ContainsAny":        inStringsContainsAny,
		"strings.IndexAny":           inStringsIndexAny,
		"strings.IndexRune":          inStringsIndexRune,
		"strings.Count":              inStringsCount,
		"strings.Compare":            inStringsCompare,
		"strings.ToLower":            inStringsToLower,
		"strings.ToUpper":            inStringsToUpper,
		"strings.TrimLeft":           inStringsTrimLeft,
		"strings.TrimRight":          inStringsTrimRight,
		"strings.Trim":               inStringsTrim,
		"(*strings.Builder).String":  inBuilderString,
		"(*strings.Builder).Len":     inBuilderLen,
		"(*strings.Builder).Reset":   inBuilderReset,
		"(*strings.Builder).Grow":    func(r *Run, fn *ssa.Function, a []Value) Value { return nil },
		"(*strings.Builder).Write":   inBuilderWrite,
		"(*strings.Builder).WriteByte":   inBuilderWriteByte,
		"(*strings.Builder).WriteRune":   inBuilderWriteRune,
		"(*strings.Builder).WriteString": inBuilderWriteString,
		"internal/bytealg.IndexByteString": inStringsIndexByte,
		"internal/bytealg.CountString":     inCountByteString,
		"internal/stringslite.Index":       inStringsIndex,
		"internal/stringslite.IndexByte":   inStringsIndexByte,
		"unicode/utf8.DecodeRuneInString": inDecodeRuneInString,
		"strconv.ParseInt":           inParseInt,
		"strconv.ParseUint":          inParseUint,
		"strconv.Atoi":               inAtoi,
		"strconv.FormatInt":          inFormatInt,
		"strconv.FormatUint":         inFormatUint,
		"strconv.Itoa":               inItoa,
		"strconv.Quote":              inOpaqueString,
		"fmt.Errorf":                 inErrorf,
		"fmt.Sprintf":                inSprintf,
		"fmt.Sprint":                 inSprint,
		"fmt.Sprintln":               inOpaqueString,
		"fmt.Fprintf":                inFprintf,
		"fmt.Fprint":                 inFprint,
		"fmt.Fprintln":               inFprint,
		"fmt.Printf":                 inNop,
		"fmt.Println":                inNop,
		"fmt.Print":                  inNop,
		"log.Printf":                 inNop,
		"log.Println":                inNop,
		"log.Print":                  inNop,
		"sort.Slice":                 inSortSlice,
		"sort.SliceStable":           inSortSliceStable,
		"errors.Is":                  inErrorsIs,
		"errors.As":                  inErrorsAs,
		"(*sync.Mutex).Lock":         inMutexLock,
		"(*sync.Mutex).Unlock":       inMutexUnlock,
		"(*sync.RWMutex).Lock":       inMutexLock,
		"(*sync.RWMutex).Unlock":     inMutexUnlock,
		"(*sync.RWMutex).RLock":      inMutexLock,
		"(*sync.RWMutex).RUnlock":    inMutexUnlock,
		"(*sync.Once).Do":            inOnceDo,
		"(*sync/atomic.Pointer[T]).Load":            inAtomicLoad,
		"(*sync/atomic.Pointer[T]).Store":           inAtomicStore,
		"(*sync/atomic.Pointer[T]).Swap":            inAtomicSwap,
		"(*sync/atomic.Pointer[T]).CompareAndSwap":  inAtomicCAS,
		"(*sync/atomic.Int32).Load":   inAtomicLoad,
		"(*sync/atomic.Int32).Store":  inAtomicStore,
		"(*sync/atomic.Int32).Add":    inAtomicAdd,
		"(*sync/atomic.Int64).Load":   inAtomicLoad,
		"(*sync/atomic.Int64).Store":  inAtomicStore,
		"(*sync/atomic.Int64).Add":    inAtomicAdd,
		"(*sync/atomic.Uint32).Load":  inAtomicLoad,
		"(*sync/atomic.Uint32).Store": inAtomicStore,
		"(*sync/atomic.Uint32).Add":   inAtomicAdd,
		"(*sync/atomic.Uint64).Load":  inAtomicLoad,
		"(*sync/atomic.Uint64).Store": inAtomicStore,
		"(*sync/atomic.Uint64).Add":   inAtomicAdd,
		"(*sync/atomic.Bool).Load":    inAtomicLoad,
		"(*sync/atomic.Bool).Store":   inAtomicStore,
		"time.Now":                   inTimeNow,
		"time.Since":                 inTimeSince,
		"context.Background":         inCtxBackground,
		"context.TODO":               inCtxBackground,
		"math/bits.TrailingZeros64":  inTrailingZeros64,
		"math/bits.OnesCount64":      inOnesCount64,
		"math/bits.Len":              inBitsLen,
		"math/bits.Len64":            inBitsLen,
	}
	harnessRT = map[string]intrinsicFn{
		"vParam":       rtParam,
		"vByte":        rtByte,
		"vBool":        rtBool,
		"vInt":         rtInt,
		"vInt64":       rtInt,
		"vBytes":       rtBytes,
		"vAssume":      rtAssume,
		"vAssert":      rtAssert,
		"vCover":       rtCover,
		"vObserveInt":  rtObserve,
		"vObserveStr":  rtObserve,
		"vObserveBool": rtObserve,
		"vAnd":         rtAnd,
		"vOr":          rtOr,
		"vNot":         rtNot,
		"vImplies":     rtImplies,
		"vIff":         rtIff,
		"vIteInt":      rtIteInt,
		"vSign":        rtSign,
		"vEngine":      func(r *Run, fn *ssa.Function, a []Value) Value { return r.eng.tt.True },
		"vConcreteInt": rtConcreteInt,
		"vNote":        func(r *Run, fn *ssa.Function, a []Value) Value { return nil },
		"vFreezeAll":   rtFreezeAll,
		"vFrozenWrites": rtFrozenWrites,
		"vShareBarrier": rtShareBarrier,
		"vRaceReport":   rtRaceReport,
	}
}

func inNop(r *Run, fn *ssa.Function, a []Value) Value {
	sig := fn.Signature
	if sig.Results().Len() == 0 {
		return nil
	}
	if sig.Results().Len() == 1 {
		return r.eng.zero(sig.Results().At(0).Type())
	}
	return r.eng.zero(sig.Results())
}

func inOpaqueString(r *Run, fn *ssa.Function, a []Value) Value { return StrV{Opaque: true} }

func (r *Run) needStr(v Value) StrV {
	s, ok := v.(StrV)
	if !ok {
		r.unsupported("expected string, got %T", v)
	}
	if s.Opaque {
		r.unsupported("operation on opaque string")
	}
	return s
}

func (r *Run) concreteStr(v Value, what string) string {
	s := r.needStr(v)
	cs, ok := concreteString(s)
	if !ok {
		r.unsupported("%s must be concrete", what)
	}
	return cs
}

func (r *Run) mkInt(i int) *Term { return r.eng.tt.Const(64, uint64(int64(i))) }

// matchAt is the condition that sub occurs in s at offset i.
func (r *Run) matchAt(s, sub StrV, i int) *Term {
	tt := r.eng.tt
	c := tt.True
	for j := range sub.B {
		c = tt.And(c, tt.Eq(s.B[i+j], sub.B[j]))
	}
	return c
}

func inStringsIndex(r *Run, fn *ssa.Function, a []Value) Value {
	s, sub := r.needStr(a[0]), r.needStr(a[1])
	for i := 0; i+len(sub.B) <= len(s.B); i++ {
		if r.Branch(r.matchAt(s, sub, i)) {
			return r.mkInt(i)
		}
	}
	return r.mkInt(-1)
}

func inStringsLastIndex(r *Run, fn *ssa.Function, a []Value) Value {
	s, sub := r.needStr(a[0]), r.needStr(a[1])
	for i := len(s.B) - len(sub.B); i >= 0; i-- {
		if r.Branch(r.matchAt(s, sub, i)) {
			return r.mkInt(i)
		}
	}
	return r.mkInt(-1)
}

func inStringsIndexByte(r *Run, fn *ssa.Function, a []Value) Value {
	s := r.needStr(a[0])
	c := a[1].(*Term)
	tt := r.eng.tt
	for i := range s.B {
		if r.Branch(tt.Eq(s.B[i], c)) {
			return r.mkInt(i)
		}
	}
	return r.mkInt(-1)
}

func inStringsLastIndexByte(r *Run, fn *ssa.Function, a []Value) Value {
	s := r.needStr(a[0])
	c := a[1].(*Term)
	tt := r.eng.tt
	for i := len(s.B) - 1; i >= 0; i-- {
		if r.Branch(tt.Eq(s.B[i], c)) {
			return r.mkInt(i)
		}
	}
	return r.mkInt(-1)
}

func inStringsContains(r *Run, fn *ssa.Function, a []Value) Value {
	s, sub := r.needStr(a[0]), r.needStr(a[1])
	tt := r.eng.tt
	c := tt.False
	for i := 0; i+len(sub.B) <= len(s.B); i++ {
		c = tt.Or(c, r.matchAt(s, sub, i))
	}
	return c
}

func (r *Run) asciiRune(v Value, what string) *Term {
	t := v.(*Term)
	if !t.IsConst() || t.K >= 0x80 {
		r.unsupported("%s: rune must be a concrete ASCII rune", what)
	}
	return r.eng.tt.Const(8, t.K)
}

// allASCII forks; on the non-ASCII side the path is outside the model.
func (r *Run) requireASCII(s StrV, what string) {
	tt := r.eng.tt
	// one decision per byte keeps each condition over a single variable
	for _, b := range s.B {
		if r.Branch(tt.Ule(tt.Const(8, 0x80), b)) {
			r.unsupported("%s on non-ASCII input", what)
		}
	}
}

func inStringsContainsRune(r *Run, fn *ssa.Function, a []Value) Value {
	s := r.needStr(a[0])
	tt := r.eng.tt
	rn := a[1].(*Term)
	if rn.IsConst() && rn.K < 0x80 {
		c := tt.False
		for _, b := range s.B {
			c = tt.Or(c, tt.Eq(b, tt.Const(8, rn.K)))
		}
		return c
	}
	// symbolic rune: ASCII case only
	if !r.Branch(tt.Ult(tt.Resize(rn, 64, false), tt.Const(64, 0x80))) {
		r.unsupported("ContainsRune with non-ASCII symbolic rune")
	}
	r8 := tt.Resize(rn, 8, false)
	c := tt.False
	for _, b := range s.B {
		c = tt.Or(c, tt.Eq(b, r8))
	}
	return c
}

func inStringsContainsAny(r *Run, fn *ssa.Function, a []Value) Value {
	s := r.needStr(a[0])
	chars := r.concreteStr(a[1], "ContainsAny chars")
	tt := r.eng.tt
	c := tt.False
	for _, b := range s.B {
		for i := 0; i < len(chars); i++ {
			if chars[i] >= 0x80 {
				r.unsupported("ContainsAny with non-ASCII set")
			}
			c = tt.Or(c, tt.Eq(b, tt.Const(8, uint64(chars[i]))))
		}
	}
	return c
}

func inStringsIndexAny(r *Run, fn *ssa.Function, a []Value) Value {
	s := r.needStr(a[0])
	chars := r.concreteStr(a[1], "IndexAny chars")
	tt := r.eng.tt
	for i, b := range s.B {
		c := tt.False
		for j := 0; j < len(chars); j++ {
			if chars[j] >= 0x80 {
				r.unsupported("IndexAny with non-ASCII set")
			}
			c = tt.Or(c, tt.Eq(b, tt.Const(8, uint64(chars[j]))))
		}
		if r.Branch(c) {
			return r.mkInt(i)
		}
	}
	return r.mkInt(-1)
}

func inStringsIndexRune(r *Run, fn *ssa.Function, a []Value) Value {
	c := r.asciiRune(a[1], "IndexRune")
	return inStringsIndexByte(r, fn, []Value{a[0], c})
}

func inStringsCount(r *Run, fn *ssa.Function, a []Value) Value {
	s, sub := r.needStr(a[0]), r.needStr(a[1])
	if len(sub.B) == 0 {
		// utf8.RuneCountInString(s) + 1
		r.requireASCII(s, "strings.Count with empty separator")
		return r.mkInt(len(s.B) + 1)
	}
	n := 0
	for i := 0; i+len(sub.B) <= len(s.B); {
		if r.Branch(r.matchAt(s, sub, i)) {
			n++
			i += len(sub.B)
		} else {
			i++
		}
	}
	return r.mkInt(n)
}

func inCountByteString(r *Run, fn *ssa.Function, a []Value) Value {
	s := r.needStr(a[0])
	c := a[1].(*Term)
	n := 0
	for _, b := range s.B {
		if r.Branch(r.eng.tt.Eq(b, c)) {
			n++
		}
	}
	return r.mkInt(n)
}

func inStringsCompare(r *Run, fn *ssa.Function, a []Value) Value {
	x, y := r.needStr(a[0]), r.needStr(a[1])
	tt := r.eng.tt
	lt := r.strLess(x, y, false)
	eq := r.eqValue(x, y, nil)
	return tt.Ite(lt, tt.Const(64, ^uint64(0)), tt.Ite(eq, tt.Const(64, 0), tt.Const(64, 1)))
}

func inStringsToLower(r *Run, fn *ssa.Function, a []Value) Value {
	s := r.needStr(a[0])
	r.requireASCII(s, "strings.ToLower")
	tt := r.eng.tt
	out := make([]*Term, len(s.B))
	for i, b := range s.B {
		up := tt.And(tt.Ule(tt.Const(8, 'A'), b), tt.Ule(b, tt.Const(8, 'Z')))
		out[i] = tt.Ite(up, tt.Add(b, tt.Const(8, 32)), b)
	}
	return StrV{B: out}
}

func inStringsToUpper(r *Run, fn *ssa.Function, a []Value) Value {
	s := r.needStr(a[0])
	r.requireASCII(s, "strings.ToUpper")
	tt := r.eng.tt
	out := make([]*Term, len(s.B))
	for i, b := range s.B {
		lo := tt.And(tt.Ule(tt.Const(8, 'a'), b), tt.Ule(b, tt.Const(8, 'z')))
		out[i] = tt.Ite(lo, tt.Sub(b, tt.Const(8, 32)), b)
	}
	return StrV{B: out}
}

func (r *Run) inSet(b *Term, set string) *Term {
	tt := r.eng.tt
	c := tt.False
	for i := 0; i < len(set); i++ {
		if set[i] >= 0x80 {
			r.unsupported("non-ASCII cutset")
		}
		c = tt.Or(c, tt.Eq(b, tt.Const(8, uint64(set[i]))))
	}
	return c
}

func (r *Run) trimLeft(s StrV, set string) StrV {
	i := 0
	for i < len(s.B) && r.Branch(r.inSet(s.B[i], set)) {
		i++
	}
	return StrV{B: s.B[i:]}
}

func (r *Run) trimRight(s StrV, set string) StrV {
	n := len(s.B)
	for n > 0 && r.Branch(r.inSet(s.B[n-1], set)) {
		n--
	}
	return StrV{B: s.B[:n]}
}

func inStringsTrimLeft(r *Run, fn *ssa.Function, a []Value) Value {
	return r.trimLeft(r.needStr(a[0]), r.concreteStr(a[1], "cutset"))
}
func inStringsTrimRight(r *Run, fn *ssa.Function, a []Value) Value {
	return r.trimRight(r.needStr(a[0]), r.concreteStr(a[1], "cutset"))
}
func inStringsTrim(r *Run, fn *ssa.Function, a []Value) Value {
	set := r.concreteStr(a[1], "cutset")
	return r.trimRight(r.trimLeft(r.needStr(a[0]), set), set)
}

// ---- strings.Builder: struct{ addr *Builder; buf []byte }

func (r *Run) builderBuf(p Value) (PtrV, SliceV) {
	bp := p.(PtrV)
	if bp.Obj == nil {
		r.goPanic("nil *strings.Builder")
	}
	bufPtr := PtrV{Obj: bp.Obj, Path: appendPath(bp.Path, 1)}
	return bufPtr, r.load(bufPtr).(SliceV)
}

var byteType = types.Typ[types.Uint8]

func (r *Run) builderAppend(p Value, add []*Term) {
	bufPtr, buf := r.builderBuf(p)
	vals := make([]Value, len(add))
	for i, x := range add {
		vals[i] = x
	}
	nb := r.appendValues(buf, vals, byteType)
	r.store(bufPtr, nb)
}

func inBuilderString(r *Run, fn *ssa.Function, a []Value) Value {
	_, buf := r.builderBuf(a[0])
	el := r.sliceElems(buf)
	bs := make([]*Term, len(el))
	opaque := false
	for i, x := range el {
		bs[i] = x.(*Term)
	}
	if r.opaqueBuilders != nil && r.opaqueBuilders[a[0].(PtrV).Obj] {
		opaque = true
	}
	return StrV{B: bs, Opaque: opaque, NonEmpty: opaque && len(bs) > 0}
}

func inBuilderLen(r *Run, fn *ssa.Function, a []Value) Value {
	_, buf := r.builderBuf(a[0])
	return r.mkInt(buf.Len)
}

func inBuilderReset(r *Run, fn *ssa.Function, a []Value) Value {
	bufPtr, _ := r.builderBuf(a[0])
	r.store(bufPtr, SliceV{})
	return nil
}

func inBuilderWrite(r *Run, fn *ssa.Function, a []Value) Value {
	el := r.sliceElems(a[1].(SliceV))
	bs := make([]*Term, len(el))
	for i, x := range el {
		bs[i] = x.(*Term)
	}
	r.builderAppend(a[0], bs)
	return TupleV{r.mkInt(len(bs)), IfaceV{}}
}

func inBuilderWriteByte(r *Run, fn *ssa.Function, a []Value) Value {
	r.builderAppend(a[0], []*Term{a[1].(*Term)})
	return IfaceV{}
}

func inBuilderWriteRune(r *Run, fn *ssa.Function, a []Value) Value {
	tt := r.eng.tt
	rn := a[1].(*Term)
	if rn.IsConst() {
		s := string(rune(int32(rn.K)))
		var bs []*Term
		for i := 0; i < len(s); i++ {
			bs = append(bs, tt.Const(8, uint64(s[i])))
		}
		r.builderAppend(a[0], bs)
		return TupleV{r.mkInt(len(s)), IfaceV{}}
	}
	if !r.Branch(tt.Ult(tt.Resize(rn, 64, false), tt.Const(64, 0x80))) {
		r.unsupported("WriteRune of symbolic non-ASCII rune")
	}
	r.builderAppend(a[0], []*Term{tt.Resize(rn, 8, false)})
	return TupleV{r.mkInt(1), IfaceV{}}
}

func (r *Run) builderWriteStr(p Value, s StrV) {
	if s.Opaque {
		if r.opaqueBuilders == nil {
			r.opaqueBuilders = map[*Object]bool{}
		}
		r.opaqueBuilders[p.(PtrV).Obj] = true
		return
	}
	r.builderAppend(p, s.B)
}

func inBuilderWriteString(r *Run, fn *ssa.Function, a []Value) Value {
	s := a[1].(StrV)
	r.builderWriteStr(a[0], s)
	return TupleV{r.mkInt(len(s.B)), IfaceV{}}
}

// ---- strconv

func (r *Run) digitCond(b *Term) *Term {
	tt := r.eng.tt
	return tt.And(tt.Ule(tt.Const(8, '0'), b), tt.Ule(b, tt.Const(8, '9')))
}

func (r *Run) numError(kind string) Value {
	// *strconv.NumError{Func, Num, Err}
	e := r.eng
	pkg := e.prog.ImportedPackage("strconv")
	if pkg == nil {
		for _, q := range e.allPkgs {
			if q.Pkg.Path() == "strconv" {
				pkg = q
			}
		}
	}
	nt := pkg.Type("NumError").Type()
	var errv Value = IfaceV{}
	if g, ok := pkg.Members[kind].(*ssa.Global); ok {
		errv = r.load(PtrV{Obj: e.globalObject(r, g)})
	}
	obj := e.newObject(nt, &AggV{E: []Value{StrV{Opaque: true}, StrV{Opaque: true}, errv}})
	return IfaceV{T: types.NewPointer(nt), V: PtrV{Obj: obj}}
}

// parseDigits handles an unsigned decimal string. It returns the value term
// (64 bit), an error value (nil interface when ok) and whether it overflowed
// 64 bits (concrete decision per path).
func (r *Run) parseUintCore(s StrV, fnName string) (*Term, Value, bool) {
	tt := r.eng.tt
	if len(s.B) == 0 {
		return tt.Const(64, 0), r.numError("ErrSyntax"), false
	}
	for _, b := range s.B {
		if !r.Branch(r.digitCond(b)) {
			return tt.Const(64, 0), r.numError("ErrSyntax"), false
		}
	}
	digits := s.B
	// Strip digits beyond 19 that must be zero for the value to fit.
	for len(digits) > 19 {
		if !r.Branch(tt.Eq(digits[0], tt.Const(8, '0'))) {
			return tt.Const(64, ^uint64(0)), r.numError("ErrRange"), true
		}
		digits = digits[1:]
	}
	if len(digits) == 20 {
		panic("unreachable")
	}
	val := tt.Const(64, 0)
	for _, b := range digits {
		d := tt.Resize(tt.Sub(b, tt.Const(8, '0')), 64, false)
		val = tt.Add(tt.Mul(val, tt.Const(64, 10)), d)
	}
	if len(digits) == 19 {
		// 19 digits fit in uint64 (max 9999999999999999999 < 2^64)? 2^64 = 18446744073709551616 (20 digits): yes they fit.
	}
	r.eng.decProv[val.ID] = digits
	return val, IfaceV{}, false
}

func (r *Run) parseUintFull(s StrV, bitSize int) (*Term, Value) {
	tt := r.eng.tt
	digits := s.B
	// 20-digit values may overflow uint64; handle by bounding length.
	nz := 0
	_ = nz
	if len(digits) >= 20 {
		// allow only if leading digits are zero down to 19; else decide concretely
		if cs, ok := concreteString(s); ok {
			v, err := strconv.ParseUint(cs, 10, bitSize)
			if err != nil {
				ne := err.(*strconv.NumError)
				if ne.Err == strconv.ErrRange {
					return tt.Const(64, v), r.numError("ErrRange")
				}
				return tt.Const(64, v), r.numError("ErrSyntax")
			}
			return tt.Const(64, v), IfaceV{}
		}
	}
	if len(digits) >= 20 {
		r.unsupported("ParseUint of a symbolic string with 20 or more digits")
	}
	val, errv, _ := r.parseUintCore(s, "ParseUint")
	if errv.(IfaceV).T != nil {
		return val, errv
	}
	if bitSize > 0 && bitSize < 64 {
		lim := tt.Const(64, uint64(1)<<uint(bitSize))
		if r.Branch(tt.Ule(lim, val)) {
			return tt.Const(64, (uint64(1)<<uint(bitSize))-1), r.numError("ErrRange")
		}
	}
	return val, errv
}

func (r *Run) bitSizeArg(v Value) int {
	t := v.(*Term)
	if !t.IsConst() {
		r.unsupported("symbolic bitSize")
	}
	bs := int(int64(t.K))
	if bs == 0 {
		bs = 64
	}
	return bs
}

func (r *Run) baseArg(v Value) {
	t := v.(*Term)
	if !t.IsConst() || t.K != 10 {
		r.unsupported("strconv base other than 10")
	}
}

func inParseUint(r *Run, fn *ssa.Function, a []Value) Value {
	s := r.needStr(a[0])
	r.baseArg(a[1])
	bs := r.bitSizeArg(a[2])
	if cs, ok := concreteString(s); ok {
		v, err := strconv.ParseUint(cs, 10, bs)
		if err != nil {
			kind := "ErrSyntax"
			if err.(*strconv.NumError).Err == strconv.ErrRange {
				kind = "ErrRange"
			}
			return TupleV{r.eng.tt.Const(64, v), r.numError(kind)}
		}
		return TupleV{r.eng.tt.Const(64, v), IfaceV{}}
	}
	v, e := r.parseUintFull(s, bs)
	return TupleV{v, e}
}

func (r *Run) parseInt(s StrV, bs int) (*Term, Value) {
	tt := r.eng.tt
	if cs, ok := concreteString(s); ok {
		v, err := strconv.ParseInt(cs, 10, bs)
		if err != nil {
			kind := "ErrSyntax"
			if err.(*strconv.NumError).Err == strconv.ErrRange {
				kind = "ErrRange"
			}
			return tt.Const(64, uint64(v)), r.numError(kind)
		}
		return tt.Const(64, uint64(v)), IfaceV{}
	}
	if len(s.B) == 0 {
		return tt.Const(64, 0), r.numError("ErrSyntax")
	}
	neg := false
	body := s
	if r.Branch(tt.Eq(s.B[0], tt.Const(8, '+'))) {
		body = StrV{B: s.B[1:]}
	} else if r.Branch(tt.Eq(s.B[0], tt.Const(8, '-'))) {
		neg = true
		body = StrV{B: s.B[1:]}
	}
	un, errv, over := r.parseUintCore(body, "ParseInt")
	if errv.(IfaceV).T != nil && !over {
		return tt.Const(64, 0), errv
	}
	cutoff := uint64(1) << uint(bs-1)
	if over {
		if neg {
			return tt.Const(64, uint64(-int64(cutoff))), r.numError("ErrRange")
		}
		return tt.Const(64, cutoff-1), r.numError("ErrRange")
	}
	if !neg {
		if r.Branch(tt.Ule(tt.Const(64, cutoff), un)) {
			return tt.Const(64, cutoff-1), r.numError("ErrRange")
		}
		return un, IfaceV{}
	}
	if r.Branch(tt.Ult(tt.Const(64, cutoff), un)) {
		return tt.Const(64, uint64(-int64(cutoff))), r.numError("ErrRange")
	}
	return tt.Neg(un), IfaceV{}
}

func inParseInt(r *Run, fn *ssa.Function, a []Value) Value {
	s := r.needStr(a[0])
	r.baseArg(a[1])
	bs := r.bitSizeArg(a[2])
	v, e := r.parseInt(s, bs)
	return TupleV{v, e}
}

func inAtoi(r *Run, fn *ssa.Function, a []Value) Value {
	s := r.needStr(a[0])
	v, e := r.parseInt(s, 64)
	return TupleV{v, e}
}

// formatUint renders an unsigned 64-bit term in decimal.
func (r *Run) formatUint(u *Term) StrV {
	tt := r.eng.tt
	if u.IsConst() {
		return r.eng.strConst(strconv.FormatUint(u.K, 10))
	}
	if digits, ok := r.eng.decProv[u.ID]; ok {
		// u was parsed from these digits: print them without leading zeros.
		i := 0
		for i < len(digits)-1 && r.Branch(tt.Eq(digits[i], tt.Const(8, '0'))) {
			i++
		}
		return StrV{B: digits[i:]}
	}
	// number of digits
	k := 1
	p := uint64(10)
	for k < 20 {
		if r.Branch(tt.Ult(u, tt.Const(64, p))) {
			break
		}
		k++
		if k == 20 {
			break
		}
		p *= 10
	}
	if k > r.eng.maxFormatDigits {
		r.unsupported("formatting a symbolic integer with more than %d digits", r.eng.maxFormatDigits)
	}
	ds := make([]*Term, k)
	sum := tt.Const(64, 0)
	for j := 0; j < k; j++ {
		d := tt.Var(fmt.Sprintf("dec#%d#%d#%d", u.ID, k, j), 8)
		ds[j] = d
		r.Assume(r.digitCond(d))
		sum = tt.Add(tt.Mul(sum, tt.Const(64, 10)), tt.Resize(tt.Sub(d, tt.Const(8, '0')), 64, false))
	}
	r.Assume(tt.Eq(sum, u))
	return StrV{B: ds}
}

func (r *Run) formatInt(i *Term, signed bool) StrV {
	tt := r.eng.tt
	i64 := tt.Resize(i, 64, signed)
	if !signed {
		return r.formatUint(i64)
	}
	if i64.IsConst() {
		return r.eng.strConst(strconv.FormatInt(int64(i64.K), 10))
	}
	if r.Branch(tt.Slt(i64, tt.Const(64, 0))) {
		s := r.formatUint(tt.Neg(i64))
		return StrV{B: append([]*Term{tt.Const(8, '-')}, s.B...)}
	}
	return r.formatUint(i64)
}

func inFormatInt(r *Run, fn *ssa.Function, a []Value) Value {
	r.baseArg(a[1])
	return r.formatInt(a[0].(*Term), true)
}
func inFormatUint(r *Run, fn *ssa.Function, a []Value) Value {
	r.baseArg(a[1])
	return r.formatInt(a[0].(*Term), false)
}
func inItoa(r *Run, fn *ssa.Function, a []Value) Value { return r.formatInt(a[0].(*Term), true) }

// ---- fmt

func (r *Run) methodOf(t types.Type, name string) *ssa.Function {
	ms := r.eng.prog.MethodSets.MethodSet(t)
	for i := 0; i < ms.Len(); i++ {
		sel := ms.At(i)
		if sel.Obj().Name() == name {
			return r.eng.prog.MethodValue(sel)
		}
	}
	return nil
}

// formatOperand renders one operand the way %v / %s / %d would.
func (r *Run) formatOperand(v Value, verb byte) StrV {
	switch x := v.(type) {
	case IfaceV:
		if x.T == nil {
			return r.eng.strConst("<nil>")
		}
		if verb != 'd' && verb != 'c' && verb != 'q' {
			if m := r.methodOf(x.T, "Error"); m != nil && m.Signature.Params().Len() == 0 {
				if p, ok := x.V.(PtrV); ok && p.Obj == nil {
					return r.eng.strConst("<nil>")
				}
				res := r.callFunction(m, []Value{x.V}, nil)
				if s, ok := res.(StrV); ok {
					return s
				}
			}
			if m := r.methodOf(x.T, "String"); m != nil && m.Signature.Params().Len() == 0 {
				if p, ok := x.V.(PtrV); ok && p.Obj == nil {
					return r.eng.strConst("<nil>")
				}
				res := r.callFunction(m, []Value{x.V}, nil)
				if s, ok := res.(StrV); ok {
					return s
				}
			}
		}
		switch y := x.V.(type) {
		case StrV:
			if verb == 'q' {
				return StrV{Opaque: true}
			}
			return y
		case *Term:
			w, signed, ok := intInfo(x.T)
			if !ok {
				return StrV{Opaque: true}
			}
			if w == 0 {
				if y.IsConst() {
					return r.eng.strConst(fmt.Sprint(y.K == 1))
				}
				if r.Branch(y) {
					return r.eng.strConst("true")
				}
				return r.eng.strConst("false")
			}
			if verb == 'c' {
				tt := r.eng.tt
				y64 := tt.Resize(y, 64, signed)
				if y64.IsConst() {
					return r.eng.strConst(string(rune(int32(y64.K))))
				}
				if !r.Branch(tt.Ult(y64, tt.Const(64, 0x80))) {
					r.unsupported("%%c of symbolic non-ASCII rune")
				}
				return StrV{B: []*Term{tt.Resize(y64, 8, false)}}
			}
			if verb == 'q' || verb == 'x' || verb == 'X' || verb == 'b' || verb == 'o' {
				return StrV{Opaque: true}
			}
			return r.formatInt(y, signed)
		}
		return StrV{Opaque: true}
	}
	return StrV{Opaque: true}
}

func (r *Run) variadic(v Value) []Value {
	s, ok := v.(SliceV)
	if !ok {
		return nil
	}
	return r.sliceElems(s)
}

func (r *Run) sprintf(format string, args []Value) StrV {
	var out StrV
	ai := 0
	app := func(s StrV) {
		out.B = append(out.B, s.B...)
		out.Opaque = out.Opaque || s.Opaque
	}
	for i := 0; i < len(format); i++ {
		c := format[i]
		if c != '%' {
			out.B = append(out.B, r.eng.tt.Const(8, uint64(c)))
			continue
		}
		i++
		if i >= len(format) {
			return StrV{Opaque: true}
		}
		if format[i] == '%' {
			out.B = append(out.B, r.eng.tt.Const(8, '%'))
			continue
		}
		flags := false
		for i < len(format) && strings.IndexByte("#+- 0123456789.*[]", format[i]) >= 0 {
			flags = true
			i++
		}
		if i >= len(format) {
			return StrV{Opaque: true}
		}
		verb := format[i]
		if ai >= len(args) {
			return StrV{Opaque: true}
		}
		arg := args[ai]
		ai++
		if flags {
			// Operand may still have side effects through String(); keep opaque.
			app(StrV{Opaque: true})
			continue
		}
		switch verb {
		case 's', 'v', 'd', 'c', 'q', 'w':
			app(r.formatOperand(arg, verb))
		default:
			app(StrV{Opaque: true})
		}
	}
	if ai != len(args) {
		return StrV{Opaque: true}
	}
	return out
}

func inSprintf(r *Run, fn *ssa.Function, a []Value) Value {
	format := r.concreteStr(a[0], "format string")
	return r.sprintf(format, r.variadic(a[1]))
}

func (r *Run) sprint(args []Value) StrV {
	var out StrV
	prevString := true
	for i, arg := range args {
		isStr := false
		if iv, ok := arg.(IfaceV); ok && iv.T != nil {
			isStr = isStringType(iv.T) && r.methodOf(iv.T, "String") == nil
		}
		if i > 0 && !isStr && !prevString {
			out.B = append(out.B, r.eng.tt.Const(8, ' '))
		}
		s := r.formatOperand(arg, 'v')
		out.B = append(out.B, s.B...)
		out.Opaque = out.Opaque || s.Opaque
		prevString = isStr
	}
	return out
}

func inSprint(r *Run, fn *ssa.Function, a []Value) Value { return r.sprint(r.variadic(a[0])) }

func (r *Run) writeTo(w Value, s StrV) {
	iv := w.(IfaceV)
	if iv.T == nil {
		r.goPanic("nil io.Writer")
	}
	switch iv.T.String() {
	case "*strings.Builder":
		r.builderWriteStr(iv.V, s)
		return
	}
	r.unsupported("fmt.Fprint to %s", iv.T)
}

func inFprintf(r *Run, fn *ssa.Function, a []Value) Value {
	format := r.concreteStr(a[1], "format string")
	s := r.sprintf(format, r.variadic(a[2]))
	r.writeTo(a[0], s)
	return TupleV{r.mkInt(len(s.B)), IfaceV{}}
}

func inFprint(r *Run, fn *ssa.Function, a []Value) Value {
	s := r.sprint(r.variadic(a[1]))
	r.writeTo(a[0], s)
	return TupleV{r.mkInt(len(s.B)), IfaceV{}}
}

// Errorf: the message is opaque; %w operands are kept for errors.Is/As.
func inErrorf(r *Run, fn *ssa.Function, a []Value) Value {
	e := r.eng
	format, ok := concreteString(a[0].(StrV))
	args := r.variadic(a[1])
	var wrapped Value
	if ok {
		ai := 0
		for i := 0; i < len(format); i++ {
			if format[i] != '%' {
				continue
			}
			i++
			for i < len(format) && strings.IndexByte("#+- 0123456789.*[]", format[i]) >= 0 {
				i++
			}
			if i >= len(format) {
				break
			}
			if format[i] == '%' {
				continue
			}
			if format[i] == 'w' && ai < len(args) {
				if iv, ok := args[ai].(IfaceV); ok && iv.T != nil {
					wrapped = iv
				}
			}
			ai++
		}
	}
	// a format with literal text gives a non-empty message
	nonEmpty := false
	if ok {
		for i := 0; i < len(format); i++ {
			if format[i] != '%' {
				nonEmpty = true
				break
			}
			i++
			for i < len(format) && strings.IndexByte("#+- 0123456789.*[]", format[i]) >= 0 {
				i++
			}
			if i < len(format) && format[i] == '%' {
				nonEmpty = true
				break
			}
		}
	}
	fmtPkg := e.prog.ImportedPackage("fmt")
	if wrapped != nil && fmtPkg != nil {
		wt := fmtPkg.Type("wrapError").Type()
		obj := e.newObject(wt, &AggV{E: []Value{StrV{Opaque: true, NonEmpty: nonEmpty}, wrapped}})
		return IfaceV{T: types.NewPointer(wt), V: PtrV{Obj: obj}}
	}
	var errPkg *ssa.Package
	for _, q := range e.allPkgs {
		if q.Pkg.Path() == "errors" {
			errPkg = q
		}
	}
	et := errPkg.Type("errorString").Type()
	obj := e.newObject(et, &AggV{E: []Value{StrV{Opaque: true, NonEmpty: nonEmpty}}})
	return IfaceV{T: types.NewPointer(et), V: PtrV{Obj: obj}}
}

// ---- sort

func (r *Run) sortSliceWith(a []Value, entry string) Value {
	iv := a[0].(IfaceV)
	s, ok := iv.V.(SliceV)
	if !ok {
		r.goPanic("sort.Slice of non-slice")
	}
	less := a[1]
	swap := FuncV{Name: "swapper", Native: func(r *Run, args []Value) Value {
		i := r.toIndex(args[0], s.Len-1, "swap index")
		j := r.toIndex(args[1], s.Len-1, "swap index")
		if i == j {
			return nil
		}
		arr := nodeAt(s.Obj.Val, s.Path).(*AggV)
		vi, vj := arr.E[s.Off+i], arr.E[s.Off+j]
		r.checkWritable(s.Obj)
		es := make([]Value, len(arr.E))
		copy(es, arr.E)
		es[s.Off+i], es[s.Off+j] = vj, vi
		s.Obj.Val = withNode(s.Obj.Val, s.Path, &AggV{E: es})
		return nil
	}}
	ls := &AggV{E: []Value{less, swap}}
	n := s.Len
	if entry == "stable_func" {
		fn := r.eng.stdFunc("sort", "stable_func")
		r.interpret(fn, []Value{ls, r.mkInt(n)}, nil)
		return nil
	}
	fn := r.eng.stdFunc("sort", "pdqsort_func")
	limit := bitsLen(uint64(n))
	r.interpret(fn, []Value{ls, r.mkInt(0), r.mkInt(n), r.mkInt(limit)}, nil)
	return nil
}

func inSortSlice(r *Run, fn *ssa.Function, a []Value) Value { return r.sortSliceWith(a, "pdqsort_func") }
func inSortSliceStable(r *Run, fn *ssa.Function, a []Value) Value {
	return r.sortSliceWith(a, "stable_func")
}

// ---- errors

func (r *Run) unwrapOnce(iv IfaceV) (IfaceV, bool) {
	m := r.methodOf(iv.T, "Unwrap")
	if m == nil || m.Signature.Results().Len() != 1 {
		return IfaceV{}, false
	}
	if _, ok := m.Signature.Results().At(0).Type().Underlying().(*types.Interface); !ok {
		return IfaceV{}, false
	}
	res := r.callFunction(m, []Value{iv.V}, nil)
	next, ok := res.(IfaceV)
	if !ok || next.T == nil {
		return IfaceV{}, false
	}
	return next, true
}

func inErrorsIs(r *Run, fn *ssa.Function, a []Value) Value {
	tt := r.eng.tt
	err := a[0].(IfaceV)
	target := a[1].(IfaceV)
	if err.T == nil || target.T == nil {
		return tt.Bool(err.T == nil && target.T == nil)
	}
	for depth := 0; depth < 20; depth++ {
		if types.Identical(err.T, target.T) && types.Comparable(err.T) {
			c := r.eqValue(err.V, target.V, err.T)
			if r.Branch(c) {
				return tt.True
			}
		}
		if m := r.methodOf(err.T, "Is"); m != nil && m.Signature.Params().Len() == 1 {
			res := r.callFunction(m, []Value{err.V, target}, nil)
			if t, ok := res.(*Term); ok && r.Branch(t) {
				return tt.True
			}
		}
		next, ok := r.unwrapOnce(err)
		if !ok {
			return tt.False
		}
		err = next
	}
	return tt.False
}

func inErrorsAs(r *Run, fn *ssa.Function, a []Value) Value {
	tt := r.eng.tt
	err := a[0].(IfaceV)
	target := a[1].(IfaceV)
	if target.T == nil {
		r.goPanic("errors: target cannot be nil")
	}
	pt, ok := target.T.Underlying().(*types.Pointer)
	if !ok {
		r.goPanic("errors: target must be a non-nil pointer")
	}
	tgtT := pt.Elem()
	for depth := 0; err.T != nil && depth < 20; depth++ {
		assignable := false
		if it, isI := tgtT.Underlying().(*types.Interface); isI {
			assignable = types.Implements(err.T, it)
		} else {
			assignable = types.Identical(err.T, tgtT)
		}
		if assignable {
			if _, isI := tgtT.Underlying().(*types.Interface); isI {
				r.store(target.V.(PtrV), err)
			} else {
				r.store(target.V.(PtrV), err.V)
			}
			return tt.True
		}
		next, ok := r.unwrapOnce(err)
		if !ok {
			return tt.False
		}
		err = next
	}
	return tt.False
}

// ---- sync / time / context / bits

func inMutexLock(r *Run, fn *ssa.Function, a []Value) Value {
	p := a[0].(PtrV)
	key := fmt.Sprintf("%d%v", p.Obj.ID, p.Path)
	if r.locks == nil {
		r.locks = map[string]int{}
	}
	if r.locks[key] > 0 && !strings.Contains(fn.Name(), "RLock") {
		r.goPanic("deadlock: mutex locked twice on one goroutine")
	}
	r.locks[key]++
	r.anyLocks++
	if !strings.Contains(fn.Name(), "RLock") {
		r.wlocks++
	}
	return nil
}

func inMutexUnlock(r *Run, fn *ssa.Function, a []Value) Value {
	p := a[0].(PtrV)
	key := fmt.Sprintf("%d%v", p.Obj.ID, p.Path)
	if r.locks == nil || r.locks[key] == 0 {
		r.goPanic("sync: unlock of unlocked mutex")
	}
	r.locks[key]--
	r.anyLocks--
	if !strings.Contains(fn.Name(), "RUnlock") {
		r.wlocks--
	}
	return nil
}

func inOnceDo(r *Run, fn *ssa.Function, a []Value) Value {
	p := a[0].(PtrV)
	key := fmt.Sprintf("once%d%v", p.Obj.ID, p.Path)
	if r.locks == nil {
		r.locks = map[string]int{}
	}
	if r.locks[key] == 0 {
		r.locks[key] = 1
		r.callValue(a[1], nil)
	}
	return nil
}

func inTimeNow(r *Run, fn *ssa.Function, a []Value) Value {
	return r.eng.zero(fn.Signature.Results().At(0).Type())
}

func inTimeSince(r *Run, fn *ssa.Function, a []Value) Value {
	r.eng.choiceCount++
	return r.eng.tt.Const(64, 0)
}

func inCtxBackground(r *Run, fn *ssa.Function, a []Value) Value {
	// context.backgroundCtx{} as a Context
	e := r.eng
	var pkg *ssa.Package
	for _, q := range e.allPkgs {
		if q.Pkg.Path() == "context" {
			pkg = q
		}
	}
	bt := pkg.Type("backgroundCtx").Type()
	return IfaceV{T: bt, V: e.zero(bt)}
}

func inTrailingZeros64(r *Run, fn *ssa.Function, a []Value) Value {
	tt := r.eng.tt
	x := a[0].(*Term)
	res := tt.Const(64, 64)
	for i := 63; i >= 0; i-- {
		bit := tt.Not(tt.Eq(tt.Bin(OpBvAnd, x, tt.Const(64, uint64(1)<<uint(i))), tt.Const(64, 0)))
		res = tt.Ite(bit, tt.Const(64, uint64(i)), res)
	}
	return res
}

func inOnesCount64(r *Run, fn *ssa.Function, a []Value) Value {
	tt := r.eng.tt
	x := a[0].(*Term)
	res := tt.Const(64, 0)
	for i := 0; i < 64; i++ {
		bit := tt.Bin(OpBvAnd, tt.Bin(OpLshr, x, tt.Const(64, uint64(i))), tt.Const(64, 1))
		res = tt.Add(res, bit)
	}
	return res
}

func inBitsLen(r *Run, fn *ssa.Function, a []Value) Value {
	tt := r.eng.tt
	x := tt.Resize(a[0].(*Term), 64, false)
	if x.IsConst() {
		return r.mkInt(bitsLen(x.K))
	}
	res := tt.Const(64, 0)
	for i := 0; i < 64; i++ {
		bit := tt.Not(tt.Eq(tt.Bin(OpBvAnd, x, tt.Const(64, uint64(1)<<uint(i))), tt.Const(64, 0)))
		res = tt.Ite(bit, tt.Const(64, uint64(i+1)), res)
	}
	return res
}

// ---- harness runtime

func (r *Run) rtName(v Value) string { return r.concreteStr(v, "nondet name") }

func rtParam(r *Run, fn *ssa.Function, a []Value) Value {
	name := r.rtName(a[0])
	v, ok := r.job.Params[name]
	if !ok {
		if strings.HasPrefix(name, "kf_") {
			return r.mkInt(0)
		}
		panic(fmt.Sprintf("harness asks for job parameter %q, which the job does not set", name))
	}
	return r.mkInt(v)
}

func rtByte(r *Run, fn *ssa.Function, a []Value) Value { return r.eng.tt.Var(r.rtName(a[0]), 8) }
func rtBool(r *Run, fn *ssa.Function, a []Value) Value { return r.eng.tt.Var(r.rtName(a[0]), 0) }
func rtInt(r *Run, fn *ssa.Function, a []Value) Value  { return r.eng.tt.Var(r.rtName(a[0]), 64) }

func rtBytes(r *Run, fn *ssa.Function, a []Value) Value {
	name := r.rtName(a[0])
	n := r.toIndex(a[1], 1<<16, "vBytes length")
	bs := make([]*Term, n)
	for i := range bs {
		bs[i] = r.eng.tt.Var(fmt.Sprintf("%s[%d]", name, i), 8)
	}
	return StrV{B: bs}
}

func rtAssume(r *Run, fn *ssa.Function, a []Value) Value { r.Assume(a[0].(*Term)); return nil }
func rtAssert(r *Run, fn *ssa.Function, a []Value) Value {
	r.Assert(a[0].(*Term), r.rtName(a[1]))
	return nil
}
func rtCover(r *Run, fn *ssa.Function, a []Value) Value {
	r.Cover(a[0].(*Term), r.rtName(a[1]))
	return nil
}
func rtObserve(r *Run, fn *ssa.Function, a []Value) Value {
	r.obs = append(r.obs, Observation{Label: r.rtName(a[0]), V: a[1]})
	return nil
}
func rtAnd(r *Run, fn *ssa.Function, a []Value) Value {
	return r.eng.tt.And(a[0].(*Term), a[1].(*Term))
}
func rtOr(r *Run, fn *ssa.Function, a []Value) Value { return r.eng.tt.Or(a[0].(*Term), a[1].(*Term)) }
func rtNot(r *Run, fn *ssa.Function, a []Value) Value { return r.eng.tt.Not(a[0].(*Term)) }
func rtImplies(r *Run, fn *ssa.Function, a []Value) Value {
	return r.eng.tt.Implies(a[0].(*Term), a[1].(*Term))
}
func rtIff(r *Run, fn *ssa.Function, a []Value) Value { return r.eng.tt.Eq(a[0].(*Term), a[1].(*Term)) }
func rtIteInt(r *Run, fn *ssa.Function, a []Value) Value {
	return r.eng.tt.Ite(a[0].(*Term), a[1].(*Term), a[2].(*Term))
}
func rtSign(r *Run, fn *ssa.Function, a []Value) Value {
	tt := r.eng.tt
	x := a[0].(*Term)
	z := tt.Const(64, 0)
	return tt.Ite(tt.Slt(x, z), tt.Const(64, ^uint64(0)), tt.Ite(tt.Slt(z, x), tt.Const(64, 1), z))
}
func rtConcreteInt(r *Run, fn *ssa.Function, a []Value) Value {
	lo := int64(a[1].(*Term).K)
	hi := int64(a[2].(*Term).K)
	x := a[0].(*Term)
	tt := r.eng.tt
	r.Assume(tt.And(tt.Sle(tt.Const(64, uint64(lo)), x), tt.Sle(x, tt.Const(64, uint64(hi)))))
	return r.mkInt(int(r.Concretize(x, lo, hi, true)))
}

// vFreezeAll marks every object currently reachable from globals and from the
// given roots as frozen: later stores are recorded (C05 frame condition).
func rtFreezeAll(r *Run, fn *ssa.Function, a []Value) Value {
	r.frozeAt = r.eng.nextObj
	r.frozenWrites = 0
	return nil
}

func rtFrozenWrites(r *Run, fn *ssa.Function, a []Value) Value { return r.mkInt(r.frozenWrites) }

// vShareBarrier: everything allocated so far is state other goroutines can reach.
func rtShareBarrier(r *Run, fn *ssa.Function, a []Value) Value {
	r.shareAt = r.eng.nextObj
	r.sharedWritten, r.unlockedWrites, r.unlockedReads = nil, nil, nil
	return nil
}

// vRaceReport: number of violations of the discipline since the barrier (writes to shared objects without an
// exclusive lock; unlocked reads of shared objects that are written). Each is also recorded by position.
func rtRaceReport(r *Run, fn *ssa.Function, a []Value) Value {
	n := 0
	for _, pos := range r.unlockedWrites {
		n++
		if r.res != nil {
			r.res.GlobalWrites["shared write without exclusive lock at "+pos]++
		}
	}
	for id, rpos := range r.unlockedReads {
		if wpos, ok := r.sharedWritten[id]; ok {
			n++
			if r.res != nil {
				r.res.GlobalWrites["unlocked read at "+rpos+" of shared state written at "+wpos]++
			}
		}
	}
	return r.mkInt(n)
}


// ---- unicode/utf8

func (r *Run) inRange8(b *Term, lo, hi uint64) *Term {
	tt := r.eng.tt
	return tt.And(tt.Ule(tt.Const(8, lo), b), tt.Ule(b, tt.Const(8, hi)))
}

// inDecodeRuneInString forks over the width of the first rune only.
func inDecodeRuneInString(r *Run, fn *ssa.Function, a []Value) Value {
	tt := r.eng.tt
	s := r.needStr(a[0])
	rerr := tt.Const(32, 0xFFFD)
	if len(s.B) == 0 {
		return TupleV{rerr, r.mkInt(0)}
	}
	b0 := s.B[0]
	if r.Branch(tt.Ult(b0, tt.Const(8, 0x80))) {
		return TupleV{tt.Resize(b0, 32, false), r.mkInt(1)}
	}
	z := func(b *Term) *Term { return tt.Resize(b, 32, false) }
	and32 := func(b *Term, m uint64) *Term { return tt.Bin(OpBvAnd, z(b), tt.Const(32, m)) }
	shl := func(t *Term, k uint64) *Term { return tt.Bin(OpShl, t, tt.Const(32, k)) }
	or := func(x, y *Term) *Term { return tt.Bin(OpBvOr, x, y) }
	cont := func(b *Term) *Term { return r.inRange8(b, 0x80, 0xBF) }
	if len(s.B) >= 2 {
		b1 := s.B[1]
		v2 := tt.And(r.inRange8(b0, 0xC2, 0xDF), cont(b1))
		if r.Branch(v2) {
			return TupleV{or(shl(and32(b0, 0x1F), 6), and32(b1, 0x3F)), r.mkInt(2)}
		}
		if len(s.B) >= 3 {
			b2 := s.B[2]
			lead3 := tt.Or(tt.And(tt.Eq(b0, tt.Const(8, 0xE0)), r.inRange8(b1, 0xA0, 0xBF)),
				tt.Or(tt.And(tt.Or(r.inRange8(b0, 0xE1, 0xEC), r.inRange8(b0, 0xEE, 0xEF)), cont(b1)),
					tt.And(tt.Eq(b0, tt.Const(8, 0xED)), r.inRange8(b1, 0x80, 0x9F))))
			v3 := tt.And(lead3, cont(b2))
			if r.Branch(v3) {
				return TupleV{or(or(shl(and32(b0, 0x0F), 12), shl(and32(b1, 0x3F), 6)), and32(b2, 0x3F)), r.mkInt(3)}
			}
			if len(s.B) >= 4 {
				b3 := s.B[3]
				lead4 := tt.Or(tt.And(tt.Eq(b0, tt.Const(8, 0xF0)), r.inRange8(b1, 0x90, 0xBF)),
					tt.Or(tt.And(r.inRange8(b0, 0xF1, 0xF3), cont(b1)),
						tt.And(tt.Eq(b0, tt.Const(8, 0xF4)), r.inRange8(b1, 0x80, 0x8F))))
				v4 := tt.And(lead4, tt.And(cont(b2), cont(b3)))
				if r.Branch(v4) {
					return TupleV{or(or(shl(and32(b0, 0x07), 18), shl(and32(b1, 0x3F), 12)), or(shl(and32(b2, 0x3F), 6), and32(b3, 0x3F))), r.mkInt(4)}
				}
			}
		}
	}
	return TupleV{rerr, r.mkInt(1)}
}


// ---- sync/atomic typed values: sequential semantics on the field named v
// (the engine has no scheduler; every execution is single-threaded)

func (r *Run) atomicField(fn *ssa.Function, recv Value) (PtrV, types.Type) {
	p := recv.(PtrV)
	if p.Obj == nil {
		r.goPanic("nil atomic value")
	}
	st := fn.Signature.Recv().Type().Underlying().(*types.Pointer).Elem().Underlying().(*types.Struct)
	for i := 0; i < st.NumFields(); i++ {
		if st.Field(i).Name() == "v" {
			return PtrV{Obj: p.Obj, Path: appendPath(p.Path, i)}, st.Field(i).Type()
		}
	}
	r.unsupported("atomic value without field v")
	return PtrV{}, nil
}

func (r *Run) atomicGet(fp PtrV, ft types.Type, fn *ssa.Function) Value {
	r.atomicDepth++
	v := r.load(fp)
	r.atomicDepth--
	// Pointer[T].v is an unsafe.Pointer holding a *T; Bool.v is a uint32
	if res := fn.Signature.Results(); res.Len() == 1 {
		if w, _, ok := intInfo(res.At(0).Type()); ok {
			if t, isT := v.(*Term); isT {
				if w == 0 && t.W != 0 {
					return r.eng.tt.Not(r.eng.tt.Eq(t, r.eng.tt.Const(t.W, 0)))
				}
			}
		}
	}
	return v
}

func (r *Run) atomicPut(fp PtrV, ft types.Type, v Value) {
	if t, ok := v.(*Term); ok && t.W == 0 {
		if w, _, okw := intInfo(ft); okw && w != 0 {
			v = r.eng.tt.Ite(t, r.eng.tt.Const(w, 1), r.eng.tt.Const(w, 0))
		}
	}
	r.atomicDepth++
	r.store(fp, v)
	r.atomicDepth--
}

func inAtomicLoad(r *Run, fn *ssa.Function, a []Value) Value {
	fp, ft := r.atomicField(fn, a[0])
	return r.atomicGet(fp, ft, fn)
}

func inAtomicStore(r *Run, fn *ssa.Function, a []Value) Value {
	fp, ft := r.atomicField(fn, a[0])
	r.atomicPut(fp, ft, a[1])
	return nil
}

func inAtomicSwap(r *Run, fn *ssa.Function, a []Value) Value {
	fp, ft := r.atomicField(fn, a[0])
	old := r.atomicGet(fp, ft, fn)
	r.atomicPut(fp, ft, a[1])
	return old
}

func inAtomicCAS(r *Run, fn *ssa.Function, a []Value) Value {
	fp, ft := r.atomicField(fn, a[0])
	cur := r.load(fp)
	eq := r.eqValue(cur, a[1], ft)
	if r.Branch(eq) {
		r.atomicPut(fp, ft, a[2])
		return r.eng.tt.True
	}
	return r.eng.tt.False
}

func inAtomicAdd(r *Run, fn *ssa.Function, a []Value) Value {
	fp, _ := r.atomicField(fn, a[0])
	cur := r.load(fp).(*Term)
	nv := r.eng.tt.Add(cur, a[1].(*Term))
	r.store(fp, nv)
	return nv
}
