package main

// Structural fingerprints of call arguments: two calls of a summarised
// function whose argument graphs have the same fingerprint, under path
// conditions that agree on every conjunct sharing variables with those
// arguments, have the same summary. This lets summaries be reused across
// outer paths that differ only in unrelated decisions.

import (
	"fmt"
	"strings"
)

type fpState struct {
	sb     strings.Builder
	objNum map[*Object]int
	mapNum map[*MapObj]int
	queue  []interface{}
	vars   map[int]*Term
	e      *Engine
}

func (fs *fpState) term(t *Term) {
	fmt.Fprintf(&fs.sb, "t%d,", t.ID)
	for _, v := range fs.e.termVars(t) {
		fs.vars[v.ID] = v
	}
}

func (fs *fpState) obj(o *Object) string {
	if o.Global != nil {
		return "g:" + o.Global.String()
	}
	if o.Frozen {
		return fmt.Sprintf("f%d", o.ID) // frozen objects are the same objects on every path
	}
	n, ok := fs.objNum[o]
	if !ok {
		n = len(fs.objNum)
		fs.objNum[o] = n
		fs.queue = append(fs.queue, o)
	}
	return fmt.Sprintf("o%d", n)
}

func (fs *fpState) walk(v Value) {
	switch x := v.(type) {
	case nil:
		fs.sb.WriteString("nil,")
	case *Term:
		fs.term(x)
	case StrV:
		if x.Opaque {
			fs.sb.WriteString("opaque")
		}
		fs.sb.WriteString("s[")
		for _, b := range x.B {
			fs.term(b)
		}
		fs.sb.WriteString("],")
	case PtrV:
		if x.Obj == nil {
			fs.sb.WriteString("pnil,")
			return
		}
		fmt.Fprintf(&fs.sb, "p%s%v", fs.obj(x.Obj), x.Path)
		if x.Sym != nil {
			fs.term(x.Sym)
			fmt.Fprintf(&fs.sb, "+%d/%d", x.SymBase, x.SymLen)
		}
		fs.sb.WriteByte(',')
	case SliceV:
		if x.Obj == nil {
			fs.sb.WriteString("slnil,")
			return
		}
		fmt.Fprintf(&fs.sb, "sl%s%v:%d:%d:%d,", fs.obj(x.Obj), x.Path, x.Off, x.Len, x.Cap)
	case *AggV:
		fs.sb.WriteByte('{')
		for _, el := range x.E {
			fs.walk(el)
		}
		fs.sb.WriteString("},")
	case IfaceV:
		if x.T == nil {
			fs.sb.WriteString("inil,")
			return
		}
		fs.sb.WriteString("i<" + x.T.String() + ">")
		fs.walk(x.V)
	case *MapObj:
		if x == nil {
			fs.sb.WriteString("mnil,")
			return
		}
		if x.Frozen {
			fmt.Fprintf(&fs.sb, "fm%d,", x.ID)
			return
		}
		n, ok := fs.mapNum[x]
		if !ok {
			n = len(fs.mapNum)
			fs.mapNum[x] = n
			fs.queue = append(fs.queue, x)
		}
		fmt.Fprintf(&fs.sb, "m%d,", n)
	case FuncV:
		if x.Fn != nil {
			fs.sb.WriteString("fn:" + x.Fn.String())
		} else {
			fs.sb.WriteString("fn?" + x.Name)
		}
		fs.sb.WriteByte('(')
		for _, el := range x.Env {
			fs.walk(el)
		}
		fs.sb.WriteString("),")
	case TupleV:
		fs.sb.WriteByte('(')
		for _, el := range x {
			fs.walk(el)
		}
		fs.sb.WriteString("),")
	case FloatV:
		fmt.Fprintf(&fs.sb, "f%v,", x.F)
	default:
		fmt.Fprintf(&fs.sb, "?%T,", v)
	}
}

// fingerprint serialises the argument graph and returns the variables in it.
func (r *Run) fingerprint(name string, args []Value, env []Value) (string, map[int]*Term) {
	fs := &fpState{objNum: map[*Object]int{}, mapNum: map[*MapObj]int{}, vars: map[int]*Term{}, e: r.eng}
	fs.sb.WriteString(name)
	fs.sb.WriteByte('|')
	for _, a := range args {
		fs.walk(a)
	}
	fs.sb.WriteByte('|')
	for _, a := range env {
		fs.walk(a)
	}
	for i := 0; i < len(fs.queue); i++ {
		switch x := fs.queue[i].(type) {
		case *Object:
			fmt.Fprintf(&fs.sb, ";o%d=", fs.objNum[x])
			fs.walk(x.Val)
		case *MapObj:
			fmt.Fprintf(&fs.sb, ";m%d=", fs.mapNum[x])
			for k := range x.Keys {
				fs.walk(x.Keys[k])
				fs.sb.WriteString("=>")
				fs.walk(x.Vals[k])
			}
		}
		if fs.sb.Len() > 1<<20 {
			return "", nil
		}
	}
	return fs.sb.String(), fs.vars
}

// ufState groups the variables of the path condition into components
// (variables linked by a common conjunct); each component carries an
// order-independent hash of its conjuncts. Pushes are logged so that the
// state can be rolled back when the path condition is truncated.
type ufState struct {
	parent map[int]int
	size   map[int]int
	hash   map[int]pcHash // per root
	log    []ufUndo
	marks  []int // log length before the i-th conjunct was pushed
}

type ufUndo struct {
	kind     int // 0 new node, 1 attach, 2 hash change
	node     int
	root     int
	oldSize  int
	oldHash  pcHash
	rootHash pcHash
}

func newUF() *ufState {
	return &ufState{parent: map[int]int{}, size: map[int]int{}, hash: map[int]pcHash{}}
}

func (u *ufState) find(x int) int {
	for {
		p, ok := u.parent[x]
		if !ok || p == x {
			return x
		}
		x = p
	}
}

func litHash(l Lit) pcHash {
	x := uint64(int64(l)) * 0x9E3779B97F4A7C15
	x ^= x >> 32
	y := (uint64(int64(l)) + 0x12345) * 0xC2B2AE3D27D4EB4F
	y ^= y >> 29
	return pcHash{x, y}
}

func (r *Run) ufPush(c *Term, l Lit) {
	if r.uf == nil {
		r.uf = newUF()
	}
	u := r.uf
	u.marks = append(u.marks, len(u.log))
	vars := r.eng.termVars(c)
	if len(vars) == 0 {
		return
	}
	root := -1
	for _, v := range vars {
		if _, ok := u.parent[v.ID]; !ok {
			u.parent[v.ID] = v.ID
			u.size[v.ID] = 1
			u.log = append(u.log, ufUndo{kind: 0, node: v.ID})
		}
		rv := u.find(v.ID)
		if root == -1 {
			root = rv
			continue
		}
		if rv == root {
			continue
		}
		// attach the smaller under the larger
		big, small := root, rv
		if u.size[small] > u.size[big] {
			big, small = small, big
		}
		u.log = append(u.log, ufUndo{kind: 1, node: small, root: big, oldSize: u.size[big], oldHash: u.hash[big], rootHash: u.hash[small]})
		u.parent[small] = big
		u.size[big] += u.size[small]
		hb, hs := u.hash[big], u.hash[small]
		u.hash[big] = pcHash{hb.a + hs.a, hb.b + hs.b}
		root = big
	}
	h := u.hash[root]
	u.log = append(u.log, ufUndo{kind: 2, root: root, oldHash: h})
	lh := litHash(l)
	u.hash[root] = pcHash{h.a + lh.a, h.b + lh.b}
}

func (r *Run) ufTruncate(n int) {
	u := r.uf
	if u == nil || n >= len(u.marks) {
		return
	}
	target := u.marks[n]
	for len(u.log) > target {
		e := u.log[len(u.log)-1]
		u.log = u.log[:len(u.log)-1]
		switch e.kind {
		case 0:
			delete(u.parent, e.node)
			delete(u.size, e.node)
			delete(u.hash, e.node)
		case 1:
			u.parent[e.node] = e.node
			u.size[e.root] = e.oldSize
			u.hash[e.root] = e.oldHash
			u.hash[e.node] = e.rootHash
		case 2:
			u.hash[e.root] = e.oldHash
		}
	}
	u.marks = u.marks[:n]
}

// relevantPC returns a key of the conjuncts of the path condition that
// (transitively) share variables with vars: the component hashes of those
// variables (order-independent).
func (r *Run) relevantPC(vars map[int]*Term) string {
	u := r.uf
	if u == nil {
		return ""
	}
	seen := map[int]bool{}
	var acc pcHash
	n := 0
	for id := range vars {
		if _, ok := u.parent[id]; !ok {
			continue
		}
		root := u.find(id)
		if seen[root] {
			continue
		}
		seen[root] = true
		h := u.hash[root]
		// combine commutatively over components, keeping the root identity out of it
		acc.a += h.a*0x100000001B3 + 7
		acc.b += h.b ^ (h.a >> 7)
		n++
	}
	return fmt.Sprintf("%x.%x.%d", acc.a, acc.b, n)
}
