package main

// Structural fingerprints of call arguments: two calls of a summarised
// function whose argument graphs have the same fingerprint, under path
// conditions that agree on every conjunct sharing variables with those
// arguments, have the same summary. This lets summaries be reused across
// outer paths that differ only in unrelated decisions.

import (
	"fmt"
	"sort"
	"strings"
)

type fpState struct {
	sb     strings.Builder
	objNum map[*Object]int
	mapNum map[*MapObj]int
	queue  []interface{}
	vars   map[int]*Term
	e      *Engine
}

func (fs *fpState) term(t *Term) {
	fmt.Fprintf(&fs.sb, "t%d,", t.ID)
	for _, v := range fs.e.termVars(t) {
		fs.vars[v.ID] = v
	}
}

func (fs *fpState) obj(o *Object) string {
	if o.Global != nil {
		return "g:" + o.Global.String()
	}
	if o.Frozen {
		return fmt.Sprintf("f%d", o.ID) // frozen objects are the same objects on every path
	}
	n, ok := fs.objNum[o]
	if !ok {
		n = len(fs.objNum)
		fs.objNum[o] = n
		fs.queue = append(fs.queue, o)
	}
	return fmt.Sprintf("o%d", n)
}

func (fs *fpState) walk(v Value) {
	switch x := v.(type) {
	case nil:
		fs.sb.WriteString("nil,")
	case *Term:
		fs.term(x)
	case StrV:
		if x.Opaque {
			fs.sb.WriteString("opaque")
		}
		fs.sb.WriteString("s[")
		for _, b := range x.B {
			fs.term(b)
		}
		fs.sb.WriteString("],")
	case PtrV:
		if x.Obj == nil {
			fs.sb.WriteString("pnil,")
			return
		}
		fmt.Fprintf(&fs.sb, "p%s%v", fs.obj(x.Obj), x.Path)
		if x.Sym != nil {
			fs.term(x.Sym)
			fmt.Fprintf(&fs.sb, "+%d/%d", x.SymBase, x.SymLen)
		}
		fs.sb.WriteByte(',')
	case SliceV:
		if x.Obj == nil {
			fs.sb.WriteString("slnil,")
			return
		}
		fmt.Fprintf(&fs.sb, "sl%s%v:%d:%d:%d,", fs.obj(x.Obj), x.Path, x.Off, x.Len, x.Cap)
	case *AggV:
		fs.sb.WriteByte('{')
		for _, el := range x.E {
			fs.walk(el)
		}
		fs.sb.WriteString("},")
	case IfaceV:
		if x.T == nil {
			fs.sb.WriteString("inil,")
			return
		}
		fs.sb.WriteString("i<" + x.T.String() + ">")
		fs.walk(x.V)
	case *MapObj:
		if x == nil {
			fs.sb.WriteString("mnil,")
			return
		}
		if x.Frozen {
			fmt.Fprintf(&fs.sb, "fm%d,", x.ID)
			return
		}
		n, ok := fs.mapNum[x]
		if !ok {
			n = len(fs.mapNum)
			fs.mapNum[x] = n
			fs.queue = append(fs.queue, x)
		}
		fmt.Fprintf(&fs.sb, "m%d,", n)
	case FuncV:
		if x.Fn != nil {
			fs.sb.WriteString("fn:" + x.Fn.String())
		} else {
			fs.sb.WriteString("fn?" + x.Name)
		}
		fs.sb.WriteByte('(')
		for _, el := range x.Env {
			fs.walk(el)
		}
		fs.sb.WriteString("),")
	case TupleV:
		fs.sb.WriteByte('(')
		for _, el := range x {
			fs.walk(el)
		}
		fs.sb.WriteString("),")
	case FloatV:
		fmt.Fprintf(&fs.sb, "f%v,", x.F)
	default:
		fmt.Fprintf(&fs.sb, "?%T,", v)
	}
}

// fingerprint serialises the argument graph and returns the variables in it.
func (r *Run) fingerprint(name string, args []Value, env []Value) (string, map[int]*Term) {
	fs := &fpState{objNum: map[*Object]int{}, mapNum: map[*MapObj]int{}, vars: map[int]*Term{}, e: r.eng}
	fs.sb.WriteString(name)
	fs.sb.WriteByte('|')
	for _, a := range args {
		fs.walk(a)
	}
	fs.sb.WriteByte('|')
	for _, a := range env {
		fs.walk(a)
	}
	for i := 0; i < len(fs.queue); i++ {
		switch x := fs.queue[i].(type) {
		case *Object:
			fmt.Fprintf(&fs.sb, ";o%d=", fs.objNum[x])
			fs.walk(x.Val)
		case *MapObj:
			fmt.Fprintf(&fs.sb, ";m%d=", fs.mapNum[x])
			for k := range x.Keys {
				fs.walk(x.Keys[k])
				fs.sb.WriteString("=>")
				fs.walk(x.Vals[k])
			}
		}
		if fs.sb.Len() > 1<<20 {
			return "", nil
		}
	}
	return fs.sb.String(), fs.vars
}

// relevantPC returns a canonical key of the conjuncts of the path condition
// that (transitively) share variables with vars.
func (r *Run) relevantPC(vars map[int]*Term) string {
	e := r.eng
	rel := map[int]bool{}
	for id := range vars {
		rel[id] = true
	}
	used := make([]bool, len(r.pcT))
	for changed := true; changed; {
		changed = false
		for i, c := range r.pcT {
			if used[i] {
				continue
			}
			cv := e.termVars(c)
			hit := false
			for _, v := range cv {
				if rel[v.ID] {
					hit = true
					break
				}
			}
			if hit {
				used[i] = true
				changed = true
				for _, v := range cv {
					rel[v.ID] = true
				}
			}
		}
	}
	var lits []int
	for i := range r.pcT {
		if used[i] {
			lits = append(lits, int(r.pc[i]))
		}
	}
	sort.Ints(lits)
	var sb strings.Builder
	prev := 0
	for i, l := range lits {
		if i > 0 && l == prev {
			continue
		}
		prev = l
		fmt.Fprintf(&sb, "%d,", l)
	}
	return sb.String()
}
