package main

import (
	"fmt"
	"go/types"
	"reflect"
	"sync"

	"golang.org/x/tools/go/ssa"
)

var growCache sync.Map

var sizes = types.SizesFor("gc", "amd64")

func hasPointers(t types.Type) bool {
	switch u := t.Underlying().(type) {
	case *types.Basic:
		return u.Info()&types.IsString != 0 || u.Kind() == types.UnsafePointer
	case *types.Array:
		return u.Len() > 0 && hasPointers(u.Elem())
	case *types.Struct:
		for i := 0; i < u.NumFields(); i++ {
			if hasPointers(u.Field(i).Type()) {
				return true
			}
		}
		return false
	}
	return true
}

// growCap asks the real runtime what capacity append would choose.
func growCap(elem types.Type, oldLen, oldCap, newLen int) int {
	size := int(sizes.Sizeof(elem))
	ptr := hasPointers(elem)
	key := fmt.Sprintf("%d/%v/%d/%d/%d", size, ptr, oldLen, oldCap, newLen)
	if v, ok := growCache.Load(key); ok {
		return v.(int)
	}
	var et reflect.Type
	switch {
	case size == 0:
		et = reflect.TypeOf(struct{}{})
	case ptr && size%8 == 0:
		et = reflect.ArrayOf(size/8, reflect.TypeOf((*byte)(nil)))
	default:
		et = reflect.ArrayOf(size, reflect.TypeOf(byte(0)))
	}
	st := reflect.SliceOf(et)
	s := reflect.MakeSlice(st, oldLen, oldCap)
	add := reflect.MakeSlice(st, newLen-oldLen, newLen-oldLen)
	res := reflect.AppendSlice(s, add).Cap()
	growCache.Store(key, res)
	return res
}

func (r *Run) callBuiltin(b *ssa.Builtin, args []Value, c *ssa.CallCommon) Value {
	tt := r.eng.tt
	switch b.Name() {
	case "len":
		switch x := args[0].(type) {
		case StrV:
			if x.Opaque {
				r.unsupported("len of opaque string")
			}
			return tt.Const(64, uint64(len(x.B)))
		case SliceV:
			return tt.Const(64, uint64(x.Len))
		case *MapObj:
			if x == nil {
				return tt.Const(64, 0)
			}
			return tt.Const(64, uint64(len(x.Keys)))
		case PtrV:
			if c != nil {
				if pt, ok := c.Args[0].Type().Underlying().(*types.Pointer); ok {
					if at, ok := pt.Elem().Underlying().(*types.Array); ok {
						return tt.Const(64, uint64(at.Len()))
					}
				}
			}
		case *AggV:
			return tt.Const(64, uint64(len(x.E)))
		}
		r.unsupported("len of %T", args[0])
	case "cap":
		switch x := args[0].(type) {
		case SliceV:
			return tt.Const(64, uint64(x.Cap))
		case *AggV:
			return tt.Const(64, uint64(len(x.E)))
		}
		r.unsupported("cap of %T", args[0])
	case "append":
		s := args[0].(SliceV)
		var add []Value
		switch t := args[1].(type) {
		case SliceV:
			add = append(add, r.sliceElems(t)...)
		case StrV:
			if t.Opaque {
				r.unsupported("append of opaque string")
			}
			for _, x := range t.B {
				add = append(add, x)
			}
		default:
			r.unsupported("append of %T", args[1])
		}
		var elem types.Type
		if c != nil {
			elem = c.Args[0].Type().Underlying().(*types.Slice).Elem()
		} else {
			r.unsupported("deferred append")
		}
		return r.appendValues(s, add, elem)
	case "copy":
		dst := args[0].(SliceV)
		var src []Value
		switch t := args[1].(type) {
		case SliceV:
			src = append(src, r.sliceElems(t)...)
		case StrV:
			for _, x := range t.B {
				src = append(src, x)
			}
		}
		n := len(src)
		if dst.Len < n {
			n = dst.Len
		}
		if n > 0 {
			r.writeElems(dst.Obj, dst.Path, dst.Off, src[:n])
		}
		return tt.Const(64, uint64(n))
	case "delete":
		r.mapDelete(args[0].(*MapObj), args[1])
		return nil
	case "print", "println":
		return nil
	case "recover":
		return IfaceV{}
	case "min", "max":
		res := args[0]
		var t types.Type
		if c != nil {
			t = c.Args[0].Type()
		}
		for _, a := range args[1:] {
			switch x := res.(type) {
			case *Term:
				_, signed, _ := intInfo(t)
				y := a.(*Term)
				var lt *Term
				if signed {
					lt = tt.Slt(y, x)
				} else {
					lt = tt.Ult(y, x)
				}
				if b.Name() == "max" {
					lt = tt.Not(tt.Or(lt, tt.Eq(x, y)))
					// lt now: y > x
					res = tt.Ite(lt, y, x)
				} else {
					res = tt.Ite(lt, y, x)
				}
			default:
				r.unsupported("min/max on %T", res)
			}
		}
		return res
	case "clear":
		switch x := args[0].(type) {
		case *MapObj:
			if x != nil {
				r.checkMapWritable(x)
				x.Keys, x.Vals = nil, nil
			}
			return nil
		}
		r.unsupported("clear of %T", args[0])
	}
	r.unsupported("builtin %s", b.Name())
	return nil
}

func (r *Run) appendValues(s SliceV, add []Value, elem types.Type) Value {
	if len(add) == 0 {
		return s
	}
	newLen := s.Len + len(add)
	if s.Obj != nil && newLen <= s.Cap {
		r.writeElems(s.Obj, s.Path, s.Off+s.Len, add)
		return SliceV{Obj: s.Obj, Path: s.Path, Off: s.Off, Len: newLen, Cap: s.Cap}
	}
	var nc int
	if r.job.TightAppend {
		nc = newLen
	} else {
		nc = growCap(elem, s.Len, s.Cap, newLen)
	}
	old := r.sliceElems(s)
	vals := make([]Value, 0, newLen)
	vals = append(vals, old...)
	vals = append(vals, add...)
	obj := r.newArrayObject(elem, nc, vals)
	return SliceV{Obj: obj, Len: newLen, Cap: nc}
}
