package main

// If-conversion of side-effect-free regions. At a symbolic branch the engine
// collects the blocks that (a) contain only pure, non-trapping instructions
// and (b) are reachable only through the region itself, evaluates them without
// forking while tracking the predicate under which each block runs, and then
// forks only over the region's exits (merging the phis of an exit with ite
// terms where the incoming values allow it). Switch chains and short-circuit
// conditions thereby cost one decision per distinct continuation instead of
// one per comparison.

import (
	"go/token"

	"golang.org/x/tools/go/ssa"
)

type fnInfo struct {
	pure map[*ssa.BasicBlock]bool
}

func (e *Engine) info(fn *ssa.Function) *fnInfo {
	if fi, ok := e.fnInfos[fn]; ok {
		return fi
	}
	fi := &fnInfo{pure: map[*ssa.BasicBlock]bool{}}
	for _, b := range fn.Blocks {
		ok := len(b.Succs) > 0
		for _, ins := range b.Instrs {
			switch ins.(type) {
			case *ssa.If, *ssa.Jump:
			default:
				if !pureInstr(ins) {
					ok = false
				}
			}
			if !ok {
				break
			}
		}
		fi.pure[b] = ok
	}
	e.fnInfos[fn] = fi
	return fi
}

const maxRegionBlocks = 64

// pureInstr reports whether an instruction can be evaluated speculatively.
func pureInstr(ins ssa.Instruction) bool {
	switch x := ins.(type) {
	case *ssa.BinOp:
		switch x.Op {
		case token.QUO, token.REM, token.SHL, token.SHR:
			return false
		}
		return true
	case *ssa.UnOp:
		return x.Op != token.ARROW
	case *ssa.Phi, *ssa.ChangeType, *ssa.Extract, *ssa.Field, *ssa.DebugRef, *ssa.ChangeInterface, *ssa.MakeInterface:
		return true
	case *ssa.Convert:
		_, _, ok1 := intInfo(x.X.Type())
		_, _, ok2 := intInfo(x.Type())
		return ok1 && ok2
	case *ssa.FieldAddr, *ssa.IndexAddr, *ssa.Index:
		return true
	case *ssa.Lookup:
		return isStringType(x.X.Type())
	case *ssa.Slice:
		return isStringType(x.X.Type())
	case *ssa.Call:
		c := x.Common()
		if b, ok := c.Value.(*ssa.Builtin); ok {
			return b.Name() == "len" || b.Name() == "cap"
		}
		return false
	}
	return false
}

type mergeAbort struct{}

type mergeAlt struct {
	pred   *Term
	target *ssa.BasicBlock
	from   *ssa.BasicBlock // entry edge when the phis were not merged
	merged bool            // phi values of target computed (assign on entry)
	phis   []*ssa.Phi
	vals   []Value
}

type medge struct {
	from *ssa.BasicBlock
	p    *Term
}

// tryMerge evaluates the pure region below the If ending block b and returns
// the alternatives (exit predicate, exit block) to fork over.
func (r *Run) tryMerge(f *frame, b *ssa.BasicBlock, cond *Term) (alts []mergeAlt, ok bool) {
	if r.eng.noMerge {
		return nil, false
	}
	fi := r.eng.info(f.fn)
	// Region selection: fixpoint of "pure and all predecessors inside".
	inR := map[*ssa.BasicBlock]bool{}
	var order []*ssa.BasicBlock
	frontier := []*ssa.BasicBlock{b.Succs[0], b.Succs[1]}
	for changed := true; changed && len(order) < maxRegionBlocks; {
		changed = false
		var nf []*ssa.BasicBlock
		for _, x := range frontier {
			if inR[x] {
				continue
			}
			elig := x != b && fi.pure[x]
			if elig {
				for _, p := range x.Preds {
					if p != b && !inR[p] {
						elig = false
						break
					}
				}
			}
			if elig && len(order) < maxRegionBlocks {
				inR[x] = true
				order = append(order, x)
				nf = append(nf, x.Succs...)
				changed = true
			} else {
				nf = append(nf, x)
			}
		}
		frontier = nf
	}
	if len(order) == 0 {
		return nil, false
	}
	tt := r.eng.tt
	incoming := map[*ssa.BasicBlock][]medge{}
	var exitOrder []*ssa.BasicBlock
	addEdge := func(from, to *ssa.BasicBlock, p *Term) {
		if p.IsFalse() {
			return
		}
		if !inR[to] {
			if _, seen := incoming[to]; !seen {
				exitOrder = append(exitOrder, to)
			}
		}
		incoming[to] = append(incoming[to], medge{from, p})
	}
	addEdge(b, b.Succs[0], cond)
	addEdge(b, b.Succs[1], tt.Not(cond))

	savedLocals := map[ssa.Value]Value{}
	setLocal := func(v ssa.Value, val Value) {
		if _, saved := savedLocals[v]; !saved {
			if old, ok := f.locals[v]; ok {
				savedLocals[v] = old
			} else {
				savedLocals[v] = nil
			}
		}
		f.locals[v] = val
	}
	restore := func() {
		for v, old := range savedLocals {
			if old == nil {
				delete(f.locals, v)
			} else {
				f.locals[v] = old
			}
		}
	}
	// mergePhis computes the phi values of x over the given edges; ok=false
	// when some pair of incoming values cannot be merged into one value.
	mergePhis := func(x *ssa.BasicBlock, edges []medge) ([]*ssa.Phi, []Value, bool) {
		var vals []Value
		var phis []*ssa.Phi
		for _, ins := range x.Instrs {
			phi, isPhi := ins.(*ssa.Phi)
			if !isPhi {
				break
			}
			var acc Value
			first := true
			for k := len(edges) - 1; k >= 0; k-- {
				ed := edges[k]
				idx := -1
				for pi, pr := range x.Preds {
					if pr == ed.from {
						idx = pi
						break
					}
				}
				v := r.get(f, phi.Edges[idx])
				if first {
					acc = v
					first = false
					continue
				}
				if sameValue(v, acc) {
					continue
				}
				m, okm := r.mergeValues(ed.p, v, acc)
				if !okm {
					return nil, nil, false
				}
				acc = m
			}
			vals = append(vals, acc)
			phis = append(phis, phi)
		}
		return phis, vals, true
	}
	savedPos := f.pos
	success := false
	r.merging++
	func() {
		defer func() {
			if x := recover(); x != nil {
				if _, isAbort := x.(mergeAbort); isAbort {
					return
				}
				if pe, isPE := x.(pathEnd); isPE && (pe.kind == OutPanic || pe.kind == OutUnsupported) {
					return // speculative evaluation trapped: fall back to forking
				}
				panic(x)
			}
		}()
		for _, x := range order {
			edges := incoming[x]
			if len(edges) == 0 {
				continue // unreachable under the current path condition
			}
			px := tt.False
			for _, ed := range edges {
				px = tt.Or(px, ed.p)
			}
			phis, vals, okp := mergePhis(x, edges)
			if !okp {
				panic(mergeAbort{})
			}
			for k, phi := range phis {
				setLocal(phi, vals[k])
			}
			r.mergePred = px
			for _, ins := range x.Instrs {
				switch t := ins.(type) {
				case *ssa.Phi:
				case *ssa.Jump:
					addEdge(x, x.Succs[0], px)
				case *ssa.If:
					c := r.get(f, t.Cond).(*Term)
					addEdge(x, x.Succs[0], tt.And(px, c))
					addEdge(x, x.Succs[1], tt.And(px, tt.Not(c)))
				default:
					if v, isVal := ins.(ssa.Value); isVal {
						if _, saved := savedLocals[v]; !saved {
							if old, ok := f.locals[v]; ok {
								savedLocals[v] = old
							} else {
								savedLocals[v] = nil
							}
						}
					}
					r.step(f, ins)
				}
			}
		}
		r.mergePred = nil
		for _, x := range exitOrder {
			edges := incoming[x]
			phis, vals, okp := mergePhis(x, edges)
			if okp {
				px := tt.False
				for _, ed := range edges {
					px = tt.Or(px, ed.p)
				}
				// The phi values are assigned only when this exit is taken:
				// the phis of a loop header are still live in other exits.
				alts = append(alts, mergeAlt{pred: px, target: x, merged: true, phis: phis, vals: vals})
			} else {
				for _, ed := range edges {
					alts = append(alts, mergeAlt{pred: ed.p, target: x, from: ed.from})
				}
			}
		}
		success = true
	}()
	r.merging--
	r.mergePred = nil
	f.pos = savedPos
	if !success || len(alts) == 0 {
		restore()
		return nil, false
	}
	r.res.Merges++
	return alts, true
}

// guardSpeculative is called for a trapping condition met while evaluating a
// merged region: the trap must be impossible under pc ∧ (block predicate),
// otherwise the merge is abandoned.
func (r *Run) guardSpeculative(fail *Term) {
	tt := r.eng.tt
	c := tt.And(r.mergePred, fail)
	if c.IsFalse() {
		return
	}
	res, _ := r.check(c, true, false)
	if res != Unsat {
		panic(mergeAbort{})
	}
}
