package main

import (
	"fmt"
	"go/types"
	"strings"

	"golang.org/x/tools/go/ssa"
)

// Value is one of: *Term (bool / integer), StrV, PtrV, SliceV, *AggV (struct,
// array), IfaceV, *MapObj, FuncV, TupleV, FloatV, *IterV, ChanV.
type Value interface{}

// StrV is a string of concrete length whose bytes are 8-bit terms. An opaque
// string stands for text the engine did not compute (error messages); any
// attempt to look inside ends the path as UNSUPPORTED.
type StrV struct {
	B      []*Term
	Opaque bool
	// NonEmpty: an opaque string known to hold at least one byte (an error message built from a format with
	// literal text); lets `msg != ""` be decided.
	NonEmpty bool
}

// PtrV addresses the node at Path inside Obj. Obj == nil is the nil pointer.
// When Sym != nil the address is Path + [SymBase + Sym] with Sym in [0,SymLen).
type PtrV struct {
	Obj     *Object
	Path    []int
	Sym     *Term
	SymBase int
	SymLen  int
	Fn      *FuncV // pointer-ish identity for function values is not needed
}

// SliceV views elements Off..Off+Len of the array node at Path inside Obj.
type SliceV struct {
	Obj  *Object
	Path []int
	Off  int
	Len  int
	Cap  int
}

// AggV is an immutable struct or array node.
type AggV struct {
	E []Value
}

type IfaceV struct {
	T types.Type // dynamic type; nil for the nil interface
	V Value
}

type FuncV struct {
	Fn      *ssa.Function
	Env     []Value
	Builtin *ssa.Builtin
	Native  func(r *Run, args []Value) Value // engine-provided closure
	Name    string
}

func (f FuncV) IsNil() bool { return f.Fn == nil && f.Builtin == nil && f.Native == nil }

type TupleV []Value

type FloatV struct{ F float64 }

// Object is a heap cell holding an immutable value tree that is replaced
// (path-copied) on every store.
type Object struct {
	ID     int
	Val    Value
	T      types.Type
	Global *ssa.Global
	Frozen bool
}

type MapObj struct {
	ID     int
	Keys   []Value
	Vals   []Value
	KT, VT types.Type
	Frozen bool
}

// IterV is the state of a range over a string or map.
type IterV struct {
	Str   *StrV
	Pos   int
	Map   *MapObj
	Keys  []Value
	Vals  []Value
	Index int
}

func basicWidth(b *types.Basic) (w int, signed bool, ok bool) {
	switch b.Kind() {
	case types.Bool, types.UntypedBool:
		return 0, false, true
	case types.Int, types.Int64, types.UntypedInt:
		return 64, true, true
	case types.Int8:
		return 8, true, true
	case types.Int16:
		return 16, true, true
	case types.Int32, types.UntypedRune:
		return 32, true, true
	case types.Uint, types.Uint64, types.Uintptr:
		return 64, false, true
	case types.Uint8:
		return 8, false, true
	case types.Uint16:
		return 16, false, true
	case types.Uint32:
		return 32, false, true
	}
	return 0, false, false
}

func isStringType(t types.Type) bool {
	b, ok := t.Underlying().(*types.Basic)
	return ok && b.Info()&types.IsString != 0
}

func isFloatType(t types.Type) bool {
	b, ok := t.Underlying().(*types.Basic)
	return ok && b.Info()&(types.IsFloat|types.IsComplex) != 0
}

func intInfo(t types.Type) (w int, signed bool, ok bool) {
	b, isb := t.Underlying().(*types.Basic)
	if !isb {
		return 0, false, false
	}
	return basicWidth(b)
}

func isScalarType(t types.Type) bool {
	_, _, ok := intInfo(t)
	return ok
}

func (e *Engine) zero(t types.Type) Value {
	switch u := t.Underlying().(type) {
	case *types.Basic:
		if w, _, ok := basicWidth(u); ok {
			return e.tt.Const(w, 0)
		}
		if u.Info()&types.IsString != 0 {
			return StrV{}
		}
		if u.Info()&(types.IsFloat|types.IsComplex) != 0 {
			return FloatV{}
		}
		if u.Kind() == types.UnsafePointer || u.Kind() == types.UntypedNil {
			return PtrV{}
		}
	case *types.Pointer:
		return PtrV{}
	case *types.Slice:
		return SliceV{}
	case *types.Map:
		return (*MapObj)(nil)
	case *types.Chan:
		return PtrV{}
	case *types.Signature:
		return FuncV{}
	case *types.Interface:
		return IfaceV{}
	case *types.Struct:
		es := make([]Value, u.NumFields())
		for i := range es {
			es[i] = e.zero(u.Field(i).Type())
		}
		return &AggV{E: es}
	case *types.Array:
		n := int(u.Len())
		es := make([]Value, n)
		if n > 0 {
			z := e.zero(u.Elem())
			for i := range es {
				es[i] = z
			}
		}
		return &AggV{E: es}
	case *types.Tuple:
		es := make(TupleV, u.Len())
		for i := range es {
			es[i] = e.zero(u.At(i).Type())
		}
		return es
	}
	panic(fmt.Sprintf("zero: unsupported type %s", t))
}

func (e *Engine) newObject(t types.Type, v Value) *Object {
	e.nextObj++
	return &Object{ID: e.nextObj, Val: v, T: t}
}

func (e *Engine) newMap(kt, vt types.Type) *MapObj {
	e.nextObj++
	return &MapObj{ID: e.nextObj, KT: kt, VT: vt}
}

// nodeAt navigates an immutable tree.
func nodeAt(v Value, path []int) Value {
	for _, i := range path {
		a, ok := v.(*AggV)
		if !ok {
			panic(fmt.Sprintf("nodeAt: not an aggregate: %T", v))
		}
		if i < 0 || i >= len(a.E) {
			panic(fmt.Sprintf("nodeAt: index %d out of range %d", i, len(a.E)))
		}
		v = a.E[i]
	}
	return v
}

// withNode returns a copy of v with the node at path replaced by nv.
func withNode(v Value, path []int, nv Value) Value {
	if len(path) == 0 {
		return nv
	}
	a := v.(*AggV)
	es := make([]Value, len(a.E))
	copy(es, a.E)
	es[path[0]] = withNode(a.E[path[0]], path[1:], nv)
	return &AggV{E: es}
}

func appendPath(p []int, i int) []int {
	np := make([]int, len(p)+1)
	copy(np, p)
	np[len(p)] = i
	return np
}

func samePath(a, b []int) bool {
	if len(a) != len(b) {
		return false
	}
	for i := range a {
		if a[i] != b[i] {
			return false
		}
	}
	return true
}

func (e *Engine) strConst(s string) StrV {
	b := make([]*Term, len(s))
	for i := 0; i < len(s); i++ {
		b[i] = e.tt.Const(8, uint64(s[i]))
	}
	return StrV{B: b}
}

// concreteString returns the Go string if every byte is constant.
func concreteString(s StrV) (string, bool) {
	if s.Opaque {
		return "", false
	}
	var sb strings.Builder
	for _, b := range s.B {
		if !b.IsConst() {
			return "", false
		}
		sb.WriteByte(byte(b.K))
	}
	return sb.String(), true
}

// showValue renders a value for diagnostics.
func showValue(v Value) string {
	switch x := v.(type) {
	case nil:
		return "<nil>"
	case *Term:
		if x.IsConst() {
			if x.W == 0 {
				return fmt.Sprint(x.K == 1)
			}
			return fmt.Sprint(sext64(x.K, x.W))
		}
		return fmt.Sprintf("<sym t%d w%d>", x.ID, x.W)
	case StrV:
		if x.Opaque {
			return "<opaque string>"
		}
		if s, ok := concreteString(x); ok {
			return fmt.Sprintf("%q", s)
		}
		return fmt.Sprintf("<sym string len %d>", len(x.B))
	case PtrV:
		if x.Obj == nil {
			return "nil"
		}
		return fmt.Sprintf("&obj%d%v", x.Obj.ID, x.Path)
	case SliceV:
		if x.Obj == nil {
			return "[]"
		}
		return fmt.Sprintf("slice(obj%d%v %d:%d:%d)", x.Obj.ID, x.Path, x.Off, x.Len, x.Cap)
	case *AggV:
		var parts []string
		for _, e := range x.E {
			parts = append(parts, showValue(e))
		}
		return "{" + strings.Join(parts, ", ") + "}"
	case IfaceV:
		if x.T == nil {
			return "nil-iface"
		}
		return fmt.Sprintf("iface(%s: %s)", x.T, showValue(x.V))
	case *MapObj:
		if x == nil {
			return "nil-map"
		}
		return fmt.Sprintf("map#%d(len %d)", x.ID, len(x.Keys))
	case FuncV:
		if x.Fn != nil {
			return "func " + x.Fn.String()
		}
		return "func"
	case TupleV:
		var parts []string
		for _, e := range x {
			parts = append(parts, showValue(e))
		}
		return "(" + strings.Join(parts, ", ") + ")"
	}
	return fmt.Sprintf("%T", v)
}
