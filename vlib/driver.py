"""Driver for the solver-based checks: builds overlays from /verif/harness,
runs the gosym engine on /repo's current tree, replays counterexamples and
witnesses natively through `go test -overlay`, classifies against
known_findings.json and writes evidence."""

import atexit
import json
import os
import re
import shutil
import subprocess
import sys
import tempfile
import time

VERIF = os.path.dirname(os.path.dirname(os.path.abspath(__file__)))
REPO = os.environ.get("VERIF_REPO", "/repo")
BIN = os.path.join(VERIF, "bin", "gosym")
SOLVER = os.environ.get("VERIF_SOLVER", "z3-new")
# where evidence/ and replays/ are written: /verif itself unless a scratch run (seed matrix) redirects it
OUT = os.environ.get("VERIF_OUT", VERIF)
WORKERS = int(os.environ.get("VERIF_WORKERS", "16"))

GOENV = dict(os.environ, GOFLAGS="-mod=mod", GOPROXY="off", GOSUMDB="off", GOTOOLCHAIN="local")

# harness directory key -> (package dir under /repo, package name)
PKGS = {
    "semver": ("util/semver", "semver"),
    "resolve": ("util/resolve", "resolve"),
    "attr": ("util/resolve/internal/attr", "attr"),
    "dep": ("util/resolve/dep", "dep"),
    "version": ("util/resolve/version", "version"),
    "deptest": ("util/resolve/internal/deptest", "deptest"),
    "versiontest": ("util/resolve/internal/versiontest", "versiontest"),
    "schema": ("util/resolve/schema", "schema"),
    "rpypi": ("util/resolve/pypi", "pypi"),
    "rmaven": ("util/resolve/maven", "maven"),
    "rnpm": ("util/resolve/npm", "npm"),
    "pypi": ("util/pypi", "pypi"),
    "maven": ("util/maven", "maven"),
}

# packages whose verif-tagged hook files must be compiled in (MANIFEST.hooks)
PKG_TAGS = {"rnpm": "verif"}

_tmpdirs = []


def _cleanup():
    for d in _tmpdirs:
        shutil.rmtree(d, ignore_errors=True)


atexit.register(_cleanup)


def workdir():
    d = tempfile.mkdtemp(prefix="verif-")
    _tmpdirs.append(d)
    return d


def ensure_engine():
    src = os.path.join(VERIF, "engine")
    newest = max(os.path.getmtime(os.path.join(src, f)) for f in os.listdir(src))
    if os.path.exists(BIN) and os.path.getmtime(BIN) >= newest:
        return
    os.makedirs(os.path.dirname(BIN), exist_ok=True)
    r = subprocess.run(["go", "build", "-o", BIN, "."], cwd=src, env=GOENV, capture_output=True, text=True)
    if r.returncode != 0:
        print("ENGINE BUILD FAILED:\n" + r.stderr)
        sys.exit(2)


def harness_files(pkgkey, files=None):
    """The harness sources overlaid into the package: all of them, or only those a group names (so that a change
    to /repo that stops one harness file from compiling does not take unrelated harnesses down with it)."""
    d = os.path.join(VERIF, "harness", pkgkey)
    return sorted(f for f in os.listdir(d) if f.endswith(".go") and (files is None or f in files))


def make_engine_overlay(pkgkey, files=None):
    """Directory with harness sources + the engine-side runtime stub."""
    _, pkgname = PKGS[pkgkey]
    d = workdir()
    for f in harness_files(pkgkey, files):
        shutil.copy(os.path.join(VERIF, "harness", pkgkey, f), os.path.join(d, f))
    rt = open(os.path.join(VERIF, "harness", "rt", "rt.go.tmpl")).read().replace("PKGNAME", pkgname)
    open(os.path.join(d, "rt.go"), "w").write(rt)
    return d


def run_engine(pkgkey, jobs, workers=None, qtimeout_ms=20000, wall_timeout_s=3600, tests=False, tags=None, files=None, budget_s=0):
    """Runs all jobs for one package; returns the list of JobResult dicts."""
    ensure_engine()
    workers = workers or WORKERS
    pkgdir, _ = PKGS[pkgkey]
    ov = make_engine_overlay(pkgkey, files)
    wd = workdir()
    jf = os.path.join(wd, "jobs.json")
    of = os.path.join(wd, "out.json")
    json.dump(jobs, open(jf, "w"))
    cmd = [BIN, "-dir", os.path.join(REPO, pkgdir), "-harness", ov, "-jobs", jf, "-out", of,
           "-j", str(workers), "-solver", SOLVER, "-qtimeout", str(qtimeout_ms)]
    if tests:
        cmd.append("-tests")
    if budget_s:
        cmd += ["-budget", str(int(budget_s))]
    tags = tags or PKG_TAGS.get(pkgkey)
    if tags:
        cmd += ["-tags", tags]
    t0 = time.time()
    try:
        r = subprocess.run(cmd, env=GOENV, capture_output=True, text=True, timeout=wall_timeout_s)
    except subprocess.TimeoutExpired:
        return None, "engine wall-clock timeout after %ds" % wall_timeout_s, time.time() - t0
    if r.returncode != 0 or not os.path.exists(of):
        return None, "engine failed (exit %d): %s" % (r.returncode, (r.stderr or r.stdout)[-3000:]), time.time() - t0
    out = json.load(open(of))
    return out, None, time.time() - t0


_HARNESS_RE = re.compile(r"^func (Verif\w+)\(\)", re.M)


def make_native_overlay(pkgkey, files=None):
    """Overlay JSON mapping virtual files inside the repo package to real
    files: harness sources, native runtime, generated replay test."""
    pkgdir, pkgname = PKGS[pkgkey]
    d = workdir()
    names = []
    repl = {}
    for f in harness_files(pkgkey, files):
        src = os.path.join(VERIF, "harness", pkgkey, f)
        names += _HARNESS_RE.findall(open(src).read())
        repl[os.path.join(REPO, pkgdir, "zz_verif_" + f)] = src
    rt = open(os.path.join(VERIF, "harness", "rt", "rt_native.go.tmpl")).read().replace("PKGNAME", pkgname)
    rtp = os.path.join(d, "rt_native.go")
    open(rtp, "w").write(rt)
    repl[os.path.join(REPO, pkgdir, "zz_verif_rt.go")] = rtp
    reg = "\n".join('\t"%s": %s,' % (n, n) for n in names)
    tst = open(os.path.join(VERIF, "harness", "rt", "replay_test.go.tmpl")).read()
    tst = tst.replace("PKGNAME", pkgname).replace("REGISTRY", reg)
    tp = os.path.join(d, "replay_test.go")
    open(tp, "w").write(tst)
    repl[os.path.join(REPO, pkgdir, "zz_verif_replay_test.go")] = tp
    ovp = os.path.join(d, "overlay.json")
    json.dump({"Replace": repl}, open(ovp, "w"))
    return ovp, d


def is_race_case(case):
    """Harnesses named *Shared decide the concurrency clause: natively they run concurrent calls and are
    replayed under the race detector."""
    return case.get("harness", "").endswith("Shared")


def native_replay_race(pkgkey, cases, case_timeout_ms=60000, files=None):
    """One `go test -race` run per case; a data race reported by the detector is the native failure."""
    pkgdir, _ = PKGS[pkgkey]
    ovp, d = make_native_overlay(pkgkey, files)
    out = []
    tagargs = ["-tags", PKG_TAGS[pkgkey]] if pkgkey in PKG_TAGS else []
    for k, case in enumerate(cases):
        cf = os.path.join(d, "race%d.json" % k)
        of = os.path.join(d, "raceres%d.json" % k)
        json.dump([case], open(cf, "w"))
        env = dict(GOENV, VERIF_REPLAY=cf, VERIF_REPLAY_OUT=of, VERIF_REPLAY_CASE_TIMEOUT_MS=str(case_timeout_ms))
        try:
            r = subprocess.run(["go", "test", "-race"] + tagargs + ["-vet=off", "-count=1", "-run", "^TestVerifReplay$", "-overlay", ovp, "."],
                               cwd=os.path.join(REPO, pkgdir), env=env, capture_output=True, text=True, timeout=900)
        except subprocess.TimeoutExpired:
            raise RuntimeError("native race replay timed out")
        text = r.stdout + r.stderr
        crashed = "fatal error: concurrent map" in text
        if not os.path.exists(of) and not crashed and "WARNING: DATA RACE" not in text:
            raise RuntimeError("native race replay failed:\n" + text[-3000:])
        # a run the Go runtime aborts ("concurrent map writes") leaves no result file: the abort is the failure
        res = json.load(open(of))[0] if os.path.exists(of) else {"outcome": "panic", "panic_msg": "fatal error: concurrent map access"}
        if "WARNING: DATA RACE" in text or crashed:
            if crashed and "WARNING: DATA RACE" not in text:
                text = text[text.find("fatal error: concurrent map"):]
            i = text.find("WARNING: DATA RACE")
            res["outcome"] = "assert_fail"
            res["failed"] = list(res.get("failed") or []) + [case.get("tag", "")]
            res["race_report"] = text[i:i + 1500]
        out.append(res)
    return out


def native_replay(pkgkey, cases, case_timeout_ms=10000, files=None, race=True):
    """Runs the cases natively against the real build. Returns a list of
    result dicts (same order) or raises RuntimeError on build failure."""
    if not cases:
        return []
    if race and any(is_race_case(c) for c in cases):
        res = [None] * len(cases)
        ri = [i for i, c in enumerate(cases) if is_race_case(c)]
        oi = [i for i, c in enumerate(cases) if not is_race_case(c)]
        for i, r in zip(ri, native_replay_race(pkgkey, [cases[i] for i in ri], files=files)):
            res[i] = r
        for i, r in zip(oi, native_replay(pkgkey, [cases[i] for i in oi], case_timeout_ms, files=files, race=False)):
            res[i] = r
        return res
    pkgdir, _ = PKGS[pkgkey]
    ovp, d = make_native_overlay(pkgkey, files)
    results = [None] * len(cases)
    todo = list(range(len(cases)))
    rounds = 0
    while todo and rounds < 12:
        rounds += 1
        cf = os.path.join(d, "cases%d.json" % rounds)
        of = os.path.join(d, "res%d.json" % rounds)
        json.dump([cases[i] for i in todo], open(cf, "w"))
        env = dict(GOENV, VERIF_REPLAY=cf, VERIF_REPLAY_OUT=of, VERIF_REPLAY_CASE_TIMEOUT_MS=str(case_timeout_ms))
        try:
            tagargs = ["-tags", PKG_TAGS[pkgkey]] if pkgkey in PKG_TAGS else []
            r = subprocess.run(["go", "test"] + tagargs + ["-vet=off", "-count=1", "-run", "^TestVerifReplay$", "-overlay", ovp, "."],
                               cwd=os.path.join(REPO, pkgdir), env=env, capture_output=True, text=True,
                               timeout=300 + len(todo) * case_timeout_ms / 1000.0)
        except subprocess.TimeoutExpired:
            raise RuntimeError("native replay timed out")
        if not os.path.exists(of):
            raise RuntimeError("native replay failed:\n" + (r.stdout + r.stderr)[-3000:])
        res = json.load(open(of))
        nxt = []
        for k, i in enumerate(todo):
            if res[k]["outcome"] == "not_run":
                nxt.append(i)
            else:
                results[i] = res[k]
        todo = nxt
    for i in todo:
        results[i] = {"outcome": "not_run"}
    return results


def load_known():
    p = os.path.join(VERIF, "known_findings.json")
    if not os.path.exists(p):
        return []
    return json.load(open(p))["findings"]


def save_replay(prop, n, case, extra):
    d = os.path.join(OUT, "replays")
    os.makedirs(d, exist_ok=True)
    p = os.path.join(d, "%s-%d.json" % (prop, n))
    json.dump(dict(case, **extra), open(p, "w"), indent=1, sort_keys=True)
    return p


def model_string(model, name):
    """Reassembles a vBytes value from a model."""
    bs = []
    i = 0
    while "%s[%d]" % (name, i) in model:
        bs.append(model["%s[%d]" % (name, i)])
        i += 1
    return bytes(bs)
