"""Generic property runner: engine jobs -> native replays -> verdict + evidence."""

import json, random
import os
import sys
import time

from . import driver


class Group:
    def __init__(self, pkg, jobs, tests=False, files=None):
        self.pkg = pkg
        self.jobs = jobs
        self.tests = tests
        self.files = tuple(files) if files else None  # harness files to overlay (None = all of the package's)


def _fmt_case(job_res, model, tag=""):
    return {"harness": job_res["harness"], "params": job_res.get("params") or {}, "model": model, "tag": tag}


def _inject_known(prop, groups, known):
    for k in known:
        rp = k.get("region_param")
        if not rp:
            continue
        val = 1 if k["status"] == "open" else 0
        for g in groups:
            for j in g.jobs:
                j.setdefault("params", {})[rp] = val
    return known


def run_property(prop, tier, groups, required_covers=None, assumptions=None, bounds=None, notes=None,
                 qtimeout_ms=None, max_witness_replays=400, wall_timeout_s=None):
    """Runs the groups, prints verdict lines and writes evidence. Returns exit code."""
    t0 = time.time()
    seed = int(os.environ.get("VERIF_SEED", "0") or 0)
    known_all = [k for k in driver.load_known() if k["property"] == prop]
    _inject_known(prop, groups, known_all)
    open_known = [k for k in known_all if k["status"] == "open"]
    if qtimeout_ms is None:
        qtimeout_ms = 20000 if tier == "quick" else 120000
    if wall_timeout_s is None:
        wall_timeout_s = 3000 if tier == "quick" else 4 * 3600

    problems = []  # inconclusive reasons
    all_results = []
    violations = []  # (pkg, jobres, violation)
    witnesses = []  # (pkg, jobres, witness)
    tot = dict(paths=0, decisions=0, obligations=0, discharged=0, queries=0, q_sat=0, q_unsat=0, q_unknown=0,
               solver_time_s=0.0, merges=0, summaries=0, summary_paths=0)
    outcomes = {}
    outside = {}
    functions = {}
    stubs = {}
    covers = {}
    global_writes = {}
    impure = {}
    load_s = 0.0
    # The thorough tier explores as much of its job list as fits a time budget (VERIF_THOROUGH_BUDGET_S, default one
    # hour of wall clock for the engine runs of one property); jobs that were not started or were cut by the budget
    # are reported as outside the bound, never as held.
    budget_total = 0 if tier == "quick" else int(os.environ.get("VERIF_THOROUGH_BUDGET_S", "3600") or 0)
    not_run = cut = 0
    for gi, g in enumerate(groups):
        budget_s = 0
        if budget_total:
            # so that what fits the budget is a spread sample of the list and not its head (VERIF_SEED picks another)
            random.Random(seed * 1000003 + gi).shuffle(g.jobs)
            # ... with one job of every harness (and system) at the head, so that no harness is left out entirely
            seen, head, tail = set(), [], []
            for j in g.jobs:
                k = (j["harness"], (j.get("params") or {}).get("sys"))
                (tail if k in seen else head).append(j)
                seen.add(k)
            g.jobs[:] = head + tail
            budget_s = max(60, (budget_total - (time.time() - t0)) / (len(groups) - gi))
        out, err, wall = driver.run_engine(g.pkg, g.jobs, qtimeout_ms=qtimeout_ms, wall_timeout_s=wall_timeout_s, tests=g.tests, files=g.files, budget_s=budget_s)
        if err:
            problems.append("%s: %s" % (g.pkg, err))
            continue
        load_s += out["load_s"]
        for jr in out["results"]:
            jr["_pkg"] = g.pkg
            all_results.append(jr)
            if jr.get("not_run"):
                not_run += 1
                continue
            if jr.get("error"):
                problems.append("%s %s %s: engine error: %s" % (g.pkg, jr["harness"], jr.get("params"), jr["error"][:600]))
                continue
            if jr.get("cut_by_budget"):
                cut += 1
            elif not jr.get("complete"):
                problems.append("%s %s %s: exploration incomplete (%s)" % (g.pkg, jr["harness"], jr.get("params"), jr.get("notes")))
            if jr.get("undischarged"):
                problems.append("%s %s %s: undischarged obligations: %s" % (g.pkg, jr["harness"], jr.get("params"), jr["undischarged"][:5]))
            if jr.get("solver_errors"):
                problems.append("%s %s: solver errors: %s" % (g.pkg, jr["harness"], jr["solver_errors"][:3]))
            for k in tot:
                tot[k] += jr.get(k, 0)
            for k, v in (jr.get("outcomes") or {}).items():
                outcomes[k] = outcomes.get(k, 0) + v
            for k, v in (jr.get("outside_bound") or {}).items():
                outside[k] = outside.get(k, 0) + v
            for k, v in (jr.get("functions") or {}).items():
                functions[k] = functions.get(k, 0) + v
            for k, v in (jr.get("stubs") or {}).items():
                stubs[k] = stubs.get(k, 0) + v
            for k, v in (jr.get("covers") or {}).items():
                covers[k] = covers.get(k, 0) + v
            for k, v in (jr.get("global_writes") or {}).items():
                global_writes[k] = global_writes.get(k, 0) + v
            for k, v in (jr.get("impure_fallbacks") or {}).items():
                impure[k] = impure.get(k, 0) + v
            for v in jr.get("violations") or []:
                violations.append(((g.pkg, g.files), jr, v))
            for w in jr.get("witnesses") or []:
                witnesses.append(((g.pkg, g.files), jr, w))

    # ---- vacuity
    for c in required_covers or []:
        if covers.get(c, 0) == 0:
            if not_run:
                # the jobs that reach it may be among those the time budget left out: said, not judged
                print("NOTE: cover goal %r not reached by the jobs that fitted the time budget" % c)
                outside["cover goal not reached within the time budget: " + c] = 1
            else:
                problems.append("vacuity: cover goal %r never reached" % c)
    if tot["paths"] == 0:
        problems.append("vacuity: no path explored")

    # ---- native replay of counterexamples
    confirmed = []
    unrealised = 0
    by_pkg = {}
    for pkg, jr, v in violations:
        by_pkg.setdefault(pkg, []).append((jr, v))
    for (pkg, files), items in by_pkg.items():
        cases = [_fmt_case(jr, v["model"], v["id"]) for jr, v in items]
        try:
            res = driver.native_replay(pkg, cases, files=files)
        except RuntimeError as e:
            problems.append("native replay of counterexamples failed: %s" % str(e)[:1500])
            continue
        for (jr, v), c, nr in zip(items, cases, res):
            bad = False
            if v["kind"] == "assert":
                bad = nr["outcome"] == "assert_fail" and v["id"] in (nr.get("failed") or [])
                # a native panic/timeout on an assert counterexample is also a real failure of the harness run
                if nr["outcome"] in ("panic", "timeout") and not bad:
                    bad = True
            elif v["kind"] == "panic":
                bad = nr["outcome"] == "panic"
            elif v["kind"] == "unwind":
                bad = nr["outcome"] == "timeout"
            if bad and v["id"].startswith("coverage:"):
                # the template space of a struct-level harness is too small for what the parser accepts:
                # the laws are then not shown for all accepted strings, but no property is violated
                problems.append("coverage lemma fails (template space too small): %s %s %s inputs=%s" % (
                    pkg, jr["harness"], v["id"], json.dumps({k: driver.model_string(v["model"], k).decode("latin1") for k in set(x.split("[")[0] for x in v["model"] if "[" in x)})))
            elif bad:
                confirmed.append((pkg, jr, v, c, nr))
            elif nr["outcome"] == "assume_false":
                unrealised += 1
                problems.append("counterexample over template values is not realisable through the public API (unrealised): %s %s %s model=%s" % (
                    pkg, jr["harness"], v["id"], json.dumps(v["model"])[:300]))
            else:
                unrealised += 1
                problems.append("engine counterexample did not reproduce natively (engine_mismatch): %s %s %s model=%s native=%s" % (
                    pkg, jr["harness"], v["id"], json.dumps(v["model"])[:300], json.dumps(nr)[:300]))

    # ---- native replay of witnesses (validation of the encoding)
    validated = 0
    mismatches = 0
    wit_samples = []
    wby = {}
    for pkg, jr, w in witnesses[:max_witness_replays]:
        wby.setdefault(pkg, []).append((jr, w))
    for (pkg, files), items in wby.items():
        cases = [_fmt_case(jr, w["model"], w.get("cover", "")) for jr, w in items]
        try:
            res = driver.native_replay(pkg, cases, files=files, race=False)  # witnesses: plain run, no race detector
        except RuntimeError as e:
            problems.append("native replay of witnesses failed: %s" % str(e)[:1500])
            continue
        for (jr, w), c, nr in zip(items, cases, res):
            ok = nr["outcome"] in ("ok",)
            if nr["outcome"] == "assume_false":
                continue  # a template value that no string parses to: nothing to compare
            if nr["outcome"] == "assert_fail":
                # the model of a witness may violate a later assertion; that is fine as long as the engine
                # reported a violation of that assertion itself
                # (the engine records only the first few violations per job)
                ok = bool(jr.get("violations"))
            exp = w.get("observed") or {}
            got = nr.get("observed") or {}
            for k, v in exp.items():
                if v.startswith("<"):
                    continue
                if got.get(k) != v:
                    ok = False
            if w.get("cover") and w["cover"] not in (nr.get("covered") or []):
                ok = False
            if ok:
                validated += 1
                if len(wit_samples) < 6:
                    wit_samples.append({"harness": jr["harness"], "params": jr.get("params"), "model": w["model"], "observed": exp, "cover": w.get("cover", "")})
            else:
                mismatches += 1
                problems.append("witness mismatch (engine vs native): %s %s params=%s model=%s engine=%s native=%s" % (
                    pkg, jr["harness"], jr.get("params"), json.dumps(w["model"])[:300], json.dumps(exp)[:300], json.dumps(nr)[:400]))

    # ---- known findings: replay witnesses of the open ones
    known_lines = []
    for k in open_known:
        w = k.get("witness")
        if not w:
            continue
        case = {"harness": w["harness"], "params": dict(w.get("params") or {}), "model": w.get("model") or {}, "tag": k["slug"]}
        for kk in known_all:
            if kk.get("region_param"):
                case["params"].setdefault(kk["region_param"], 0)
        try:
            nr = driver.native_replay(w["pkg"], [case])[0]
        except RuntimeError as e:
            problems.append("replay of known finding %s failed: %s" % (k["slug"], str(e)[:500]))
            continue
        if nr["outcome"] in ("assert_fail", "panic", "timeout"):
            known_lines.append("KNOWN-FINDING: property=%s %s" % (prop, k["text"]))
        else:
            known_lines.append("NOTE: known finding %s no longer reproduces (%s)" % (k["slug"], nr["outcome"]))

    # ---- classify confirmed violations against site-based known findings
    new_violations = []
    for pkg, jr, v, c, nr in confirmed:
        listed = False
        for k in open_known:
            m = k.get("match")
            if not m:
                continue
            if m.get("harness") and m["harness"] != jr["harness"]:
                continue
            if m.get("assert") and m["assert"] != v["id"]:
                continue
            if m.get("pos") and m["pos"] not in (v.get("pos", ""), nr.get("panic_pos", "")):
                continue
            if m.get("params") and any(jr["params"].get(a) != b for a, b in m["params"].items()):
                continue
            listed = True
            break
        if not listed:
            new_violations.append((pkg, jr, v, c, nr))

    # ---- output
    for l in known_lines:
        print(l)
    code = 0
    n = 0
    seen = set()
    for pkg, jr, v, c, nr in new_violations:
        key = (jr["harness"], v["id"])
        if key in seen and n >= 5:
            continue
        seen.add(key)
        n += 1
        p = driver.save_replay(prop, n, c, {"pkg": pkg, "violation": v["id"], "kind": v["kind"], "engine_pos": v.get("pos"),
                                           "engine_observed": v.get("observed"), "native": nr})
        print("VIOLATION property=%s replay=%s" % (prop, p))
        print("  harness=%s params=%s what=%s native=%s" % (jr["harness"], json.dumps(jr.get("params")), v["id"], json.dumps(nr)[:400]))
        inp = {}
        for name in sorted(set(k.split("[")[0] for k in v["model"] if "[" in k)):
            inp[name] = driver.model_string(v["model"], name).decode("latin1")
        if inp:
            print("  inputs=%s" % json.dumps(inp))
        code = 1
    if code == 0 and problems:
        code = 2
        for p in problems[:30]:
            print("INCONCLUSIVE: " + p)
    elif problems:
        for p in problems[:10]:
            print("NOTE: " + p)

    # ---- evidence
    samples = wit_samples[:]
    if not samples:
        for jr in all_results[:3]:
            samples.append({"harness": jr.get("harness"), "params": jr.get("params"), "paths": jr.get("paths"), "outcomes": jr.get("outcomes")})
    if not_run or cut:
        outside["jobs of the tier's list not started within the time budget (VERIF_THOROUGH_BUDGET_S)"] = not_run
        outside["jobs cut by the time budget (their explored paths count, the rest does not)"] = cut
        print("NOTE: time budget of %ds used up: %d of %d jobs not started, %d cut; they are outside the bound of this run" % (
            budget_total, not_run, len(all_results), cut))
    all_results = [jr for jr in all_results if not jr.get("not_run")]
    job_table = []
    for jr in all_results:
        job_table.append({"pkg": jr["_pkg"], "harness": jr.get("harness"), "params": jr.get("params"), "paths": jr.get("paths"),
                          "obligations": jr.get("obligations"), "discharged": jr.get("discharged"), "queries": jr.get("queries"),
                          "wall_s": round(jr.get("wall_s", 0), 2), "complete": jr.get("complete")})
    agg = {}
    for jr in all_results:
        k = "%s sys=%s" % (jr.get("harness"), (jr.get("params") or {}).get("sys"))
        a = agg.setdefault(k, {"jobs": 0, "paths": 0, "queries": 0, "wall_s": 0.0, "obligations": 0})
        a["jobs"] += 1
        a["paths"] += jr.get("paths", 0)
        a["queries"] += jr.get("queries", 0)
        a["obligations"] += jr.get("obligations", 0)
        a["wall_s"] = round(a["wall_s"] + jr.get("wall_s", 0), 1)
    ev = {
        "property_id": prop,
        "tier": tier,
        "seed": seed,
        "level": "model_checking",
        "coverage": {
            "states": tot["paths"],
            "transitions": max(tot["decisions"], 1) if tot["paths"] else 0,
            "traces_validated_against_impl": validated,
            "samples": samples,
            "obligations": tot["obligations"],
            "discharged": tot["discharged"],
            "exhaustive": not problems and not not_run and not cut,
            "time_budget_s": budget_total,
            "explanation": "bounded symbolic execution of the go/ssa form of /repo's current sources; every feasible path inside the "
                           "stated bounds is explored (states = feasible paths, transitions = symbolic branch decisions) and each "
                           "assertion is a solver query over all input values on that path",
            "jobs": job_table[:150],
            "jobs_total": len(job_table),
            "slowest_jobs": sorted(job_table, key=lambda j: -j["wall_s"])[:15],
            "by_harness": agg,
            "outcomes": outcomes,
            "cover_goals": covers,
            "outside_bound": outside,
            "functions_encoded": dict(sorted(functions.items(), key=lambda kv: -kv[1])[:150]),
            "stubs": stubs,
            "bounds": bounds or {},
            "queries": {"total": tot["queries"], "sat": tot["q_sat"], "unsat": tot["q_unsat"], "unknown": tot["q_unknown"]},
            "solver": driver.SOLVER,
            "solver_time_s": round(tot["solver_time_s"], 2),
            "region_merges": tot["merges"],
            "summaries": {"calls": tot["summaries"], "callee_paths": tot["summary_paths"], "impure_fallbacks": impure},
            "global_writes": global_writes,
            "counterexamples": {"engine": len(violations), "confirmed_native": len(confirmed), "unrealised": unrealised,
                                "new": len(new_violations)},
            "witness_mismatches": mismatches,
            "known_findings": [l for l in known_lines],
            "inconclusive": problems[:30],
            "load_s": round(load_s, 2),
        },
        "assumptions": assumptions or [],
        "wall_s": round(time.time() - t0, 2),
        "violations": len(new_violations),
    }
    if notes:
        ev["coverage"]["notes"] = notes
    os.makedirs(os.path.join(driver.OUT, "evidence"), exist_ok=True)
    json.dump(ev, open(os.path.join(driver.OUT, "evidence", prop + ".json"), "w"), indent=1, sort_keys=True)
    print("%s %s: paths=%d decisions=%d obligations=%d/%d queries=%d (unknown %d) solver=%.1fs validated=%d wall=%.1fs -> exit %d" % (
        prop, tier, tot["paths"], tot["decisions"], tot["discharged"], tot["obligations"], tot["queries"], tot["q_unknown"],
        tot["solver_time_s"], validated, time.time() - t0, code))
    return code
