"""C05 — resolution is a pure function of the universe and the root (PyPI resolver: client-unchanged and ask-twice clauses)."""
from vlib.runner import Group, run_property

SUM = ["deps.dev/util/semver.compare", "(deps.dev/util/resolve/internal/attr.Set).Compare", "(*deps.dev/util/semver.Constraint).Match",
       "(*deps.dev/util/semver.Constraint).MatchVersionPrerelease", "(deps.dev/util/resolve.PackageKey).Compare"]


def run(tier):
    base = dict(unwind=400, timeout_s=900 if tier == "quick" else 3000, summarise=SUM, max_witnesses=2, witness_every=1, panic_is_violation=True,
                max_steps=50_000_000, max_depth=200)
    jobs = [dict(base, harness=h, params={}) for h in ("VerifC05GetDependencies", "VerifC05MatchingPrereleases", "VerifC05Resolve")]
    return run_property("C05", tier, [Group("rpypi", jobs)],
                        required_covers=["one requirement filtered out by its marker", "some version matched", "resolved without a graph error"],
                        assumptions=["one PyPI universe (root with three marker-guarded requirements, a package with a prerelease, a blocked version); the marker threshold digit is symbolic, so both the true and the false side of each marker are explored",
                                     "npm and Maven resolvers, insertion-order and concurrency clauses are not decided (no scheduler in the engine)"],
                        bounds={"universe": "4 packages, <=3 versions", "resolves": 2})
