"""C05 — resolution is a pure function of the universe and the root (all three resolvers, sequential clauses)."""
import random
from vlib.runner import Group, run_property
from props import c06, c07, c08

SUM = ["deps.dev/util/semver.compare", "(deps.dev/util/resolve/internal/attr.Set).Compare", "(*deps.dev/util/semver.Constraint).Match",
       "(*deps.dev/util/semver.Constraint).MatchVersionPrerelease", "(*deps.dev/util/semver.Constraint).MatchVersion",
       "(deps.dev/util/semver.System).Compare", "(deps.dev/util/resolve.PackageKey).Compare", "(deps.dev/util/resolve.Node).Compare",
       "(deps.dev/util/resolve.NodeError).Compare", "(deps.dev/util/resolve.VersionKey).Compare"]


def maven_skeleton(rnd, q=False):
    p = {"allsoft": 0, "mgt": 0, "mgtr": 0}
    kinds = [0, 0, 1, 2, 3, 4, 5]
    reqs = [0, 1, 2, 3, 4, 5, 6]
    targets = [1, 2, 3]
    rnd.shuffle(targets)
    for s in range(3):
        p["r%dt" % s] = targets[s] if (s == 0 or rnd.random() < 0.7) else 0
        p["r%dr" % s] = rnd.choice(reqs)
        p["r%dk" % s] = rnd.choice(kinds)
        p["r%dx" % s] = rnd.randrange(3)
    if rnd.random() < 0.4:
        p["mgt"] = rnd.choice([1, 2, 3])
        p["mgtr"] = rnd.choice([0, 1, 6])
    for pi in range(3):
        p["nv%d" % pi] = rnd.choice([1, 2] if q else [1, 2, 3])
        for vi in range(3):
            p["p%d%dt" % (pi, vi)] = rnd.choice([0, 1, 2, 3])
            p["p%d%dr" % (pi, vi)] = rnd.choice(reqs)
            p["p%d%dk" % (pi, vi)] = rnd.choice(kinds)
            p["p%d%dx" % (pi, vi)] = rnd.randrange(3)
    return p


def pypi_skeleton(rnd, q):
    p = {}
    targets = [1, 2, 3]
    rnd.shuffle(targets)
    for s in range(3):
        p["r%dt" % s] = targets[s] if (s == 0 or rnd.random() < 0.7) else 0
        p["r%dr" % s] = rnd.randrange(8)
        p["r%dm" % s] = rnd.choice([0, 0, 1, 2, 3])
    for pi in range(3):
        nv = rnd.choice([1, 2] if q else [1, 2, 3])
        p["nv%d" % pi] = nv
        p["pre%d" % pi] = rnd.choice([-1, -1] + list(range(nv)))
        for vi in range(3):
            p["p%d%dt" % (pi, vi)] = rnd.choice([0, 0, 1, 2, 3])
            p["p%d%dr" % (pi, vi)] = rnd.randrange(8)
            p["p%d%dm" % (pi, vi)] = rnd.choice([0, 0, 0, 1, 2])
    return p


def run(tier):
    q = tier == "quick"
    base = dict(unwind=400, timeout_s=900 if q else 2400, summarise=SUM, max_witnesses=1, witness_every=50, panic_is_violation=True,
                max_steps=4_000_000, max_depth=200)
    unit = [dict(base, harness=h, params={}) for h in ("VerifC05GetDependencies", "VerifC05MatchingPrereleases", "VerifC05Resolve")]
    rnd = random.Random(20261004)
    n = 12 if q else 200
    pj, nj, mj = list(unit), [], []
    for i in range(n):
        sk = c06.skeleton(rnd, False)
        sk["alt"] = i
        nj.append(dict(base, harness="VerifC05Npm", params=sk))
        sk = maven_skeleton(rnd, q)
        sk["alt"] = i
        mj.append(dict(base, harness="VerifC05Maven", params=sk))
        sk = pypi_skeleton(rnd, q)
        sk["alt"] = i
        pj.append(dict(base, harness="VerifC05PyPI", params=sk))
    # Maven, directed family: exclusion chains (an excluding declaration below another excluding declaration) and the
    # intermediate artifact as the other root, so that whatever the first resolution leaves behind for an
    # exclusion string meets the same string in another context
    import itertools
    for a, b, c in itertools.permutations([1, 2, 3]):
        for inner in (a, b, c):
            sk = {"allsoft": 1, "mgt": 0, "mgtr": 0, "alt": 0}
            for s_ in range(3):
                sk.update({"r%dt" % s_: 0, "r%dr" % s_: 0, "r%dk" % s_: 0, "r%dx" % s_: 0})
            sk.update({"r0t": a, "r0k": 4, "r0x": c - 1})
            for pi in range(3):
                sk["nv%d" % pi] = 1
                for vi in range(3):
                    sk.update({"p%d%dt" % (pi, vi): 0, "p%d%dr" % (pi, vi): 0, "p%d%dk" % (pi, vi): 0, "p%d%dx" % (pi, vi): 0})
            sk.update({"p%d0t" % (a - 1): b, "p%d0k" % (a - 1): 4, "p%d0x" % (a - 1): inner - 1})
            sk.update({"p%d0t" % (b - 1): c})
            # the other root: the first version of artifact a (entries are listed root, then g:a, g:b, g:c)
            sk["alt"] = a - 1
            mj.append(dict(base, harness="VerifC05Maven", params=sk))
    # concurrency clause, decided sequentially (shared-state discipline on one Resolve call)
    rnd2 = random.Random(20261005)
    ns = 40 if q else 600
    for i in range(ns):
        sk = c06.skeleton2(rnd2, alias_p=0.2 if i % 3 == 0 else 0.0)
        sk.update(warm=i % 2, alt=i)
        nj.append(dict(base, harness="VerifC05NpmShared", params=sk))
        sk = maven_skeleton(rnd2, q)
        sk.update(warm=i % 2, alt=i)
        mj.append(dict(base, harness="VerifC05MavenShared", params=sk))
        sk = pypi_skeleton(rnd2, q)
        sk.update(warm=0, alt=i)
        pj.append(dict(base, harness="VerifC05PyPIShared", params=sk))
    # PyPI, second-generation universes (cycles through the root, a second version of the root package, extras)
    for i in range(60 if q else 1200):
        sk = c08.skeleton2(rnd2, cyc=0.6)
        sk["alt"] = i
        pj.append(dict(base, harness="VerifC05PyPI2", params=sk))
    for i in range(24 if q else 300):
        pj.append(dict(base, harness="VerifC05PyPI2", params=c08.directed_rootcycle(rnd2)))
    for i in range(20 if q else 300):
        sk = c08.skeleton2(rnd2, cyc=0.4)
        sk.update(warm=0, alt=i)
        pj.append(dict(base, harness="VerifC05PyPIShared2", params=sk))
    # Maven, second-generation universes
    for i in range(60 if q else 1200):
        sk = c07.skeleton2(rnd2, 1 if i % 3 == 0 else 0)
        sk["alt"] = i
        mj.append(dict(base, harness="VerifC05Maven2", params=sk))
    # npm, second-generation universes
    for i in range(40 if q else 600):
        sk = c06.skeleton2(rnd2, alias_p=0.2 if i % 3 == 0 else 0.0)
        sk["alt"] = i
        nj.append(dict(base, harness="VerifC05Npm2", params=sk))
    return run_property("C05", tier, [Group("rpypi", pj, files=["c05.go", "c05shared.go", "c08r.go", "c08r2.go"]), Group("rnpm", nj, files=["c06.go", "c06v2.go", "c05shared.go"]),
                                      Group("rmaven", mj, files=["c07r.go", "c07r2.go", "c05shared.go"])],
                        required_covers=["one requirement filtered out by its marker", "some version matched", "resolved without a graph error",
                                         "resolved a graph with dependencies", "other root resolved in between",
                                         "one Resolve call checked against the shared-state discipline", "shared resolver warmed up by an earlier resolution"],
                        assumptions=["sequential clauses only: the client reports the same data after Resolve; asking again, resolving another root in between and inserting the versions in the opposite order give the same canonical graph",
                                     "universe skeletons as in C06/C07/C08 (fixed pseudo-random sample, symbolic version numbers)",
                                     "concurrency clause, decided sequentially: on every feasible path of one Resolve call, objects that existed before the call (client, shared resolver, package variables) are written only under an exclusive lock or through sync/atomic, and those that are written are read only under a lock (reads are tracked for pointer loads and map lookups, not for slice indexing); goroutine interleavings themselves are not explored - the engine has no scheduler; a counterexample is replayed natively as eight concurrent Resolve calls under the race detector"],
                        bounds={"skeletons_per_resolver": n, "packages": 3, "versions": 3})
