"""C07 — Maven mediation rules (unit lemmas)."""
import itertools
from vlib.runner import Group, run_property

SUM = ["deps.dev/util/semver.compare", "(*deps.dev/util/semver.Constraint).Match", "(deps.dev/util/resolve/internal/attr.Set).Compare"]


REQK = ["D.0", "D.0", "[D.0,E.0]", "[D.0,)", "[D.0]", "(,D.0)", "D.0"]  # = harness c07ReqKinds


def skeleton2(rnd, allsoft, symbolic=5):
    """Second-generation Maven skeleton: 3-4 artifacts, two slots per version, four on the root, classifier variants."""
    np = rnd.choice([3, 4, 4])
    p = {"allsoft": allsoft, "mgt": 0, "mgtr": 0, "mgtc": 1, "np": np}
    kinds = [0, 0, 0, 1, 2, 3, 4, 7] if allsoft else [0, 0, 0, 1, 2, 3, 4, 5, 6, 6, 7]
    reqs = [0, 1, 6] if allsoft else [0, 0, 1, 2, 3, 4, 4, 5, 6]

    def slot(tag, t):
        p.update({tag + "t": t, tag + "r": rnd.choice(reqs), tag + "k": rnd.choice(kinds), tag + "x": rnd.randrange(np)})
    targets = list(range(1, np + 1))
    rnd.shuffle(targets)
    for s in range(4):
        slot("r%d" % s, targets[s] if s < np and (s < 2 or rnd.random() < 0.6) else 0)
    if not allsoft and rnd.random() < 0.3:
        p["mgt"] = rnd.choice([1, 2, 3])
        p["mgtr"] = rnd.choice([0, 1, 6])
    for pi in range(4):
        nv = rnd.choice([1, 2, 2, 3])
        p["nv%d" % pi] = nv
        majors = rnd.sample([1, 2, 3], 3)
        for vi in range(3):
            tag = "%d%d" % (pi, vi)
            p["mj" + tag] = majors[vi]
            others = [t for t in range(1, np + 1) if t != pi + 1]
            t0 = rnd.choice([0] + others + others)
            slot("p%ss0" % tag, t0)
            # the second slot may name the same artifact again as a classifier variant
            t1 = rnd.choice([0, 0] + [t for t in others if t != t0] + ([t0] if (t0 and not allsoft) else []))
            slot("p%ss1" % tag, t1)
            if t1 and t1 == t0:
                p["p%ss0k" % tag], p["p%ss1k" % tag] = 0, 6
    left = symbolic
    tags = ["r%d" % s for s in range(4)] + ["p%d%ds%d" % (pi, vi, s) for vi in range(3) for pi in range(4) for s in range(2)]
    for tag in tags:
        if p[tag + "t"] and left >= 1:
            p[tag + "c"] = 0
            left -= 1
        else:
            p[tag + "c"] = rnd.choice([1, 2, 3])
    return p


def directed_explicit_jar(rnd):
    """Directed family: one artifact declared once without a type and once with the default type jar spelled
    out, at different versions and different depths (optionally managed by the root with the type spelled out)."""
    p = skeleton2(rnd, 1)
    for k in list(p):
        if k.endswith("t") and (k.startswith("p") or k.startswith("r")):
            p[k] = 0
    np = rnd.choice([3, 4])
    p.update({"np": np, "allsoft": 1, "mgt": 0})
    roles = rnd.sample(list(range(1, np + 1)), 3)
    A, B, X = roles

    def put(tag, t, kind=0, x=0, c=1, r=0):
        p.update({tag + "t": t, tag + "k": kind, tag + "x": x, tag + "c": c, tag + "r": r})
    jar_near = rnd.random() < 0.5
    for x in (A, B):
        p["nv%d" % (x - 1)] = 1
        p["mj%d0" % (x - 1)] = 1
    p["nv%d" % (X - 1)] = 2
    p["mj%d0" % (X - 1)], p["mj%d1" % (X - 1)] = 1, 2
    shape = rnd.choice([0, 1])
    if shape == 0:   # root -> X (v1), root -> A; A -> X (v2): one of the two declarations spells out jar
        put("r0", X, 7 if jar_near else 0, 0, 1)
        put("r1", A, 0, 0, 1)
        put("p%d0s0" % (A - 1), X, 0 if jar_near else 7, 0, 2)
    else:            # root -> A, B; A -> X v1; B -> X v2
        put("r0", A, 0, 0, 1)
        put("r1", B, 0, 0, 1)
        put("p%d0s0" % (A - 1), X, 7 if jar_near else 0, 0, rnd.choice([0, 1]))
        put("p%d0s0" % (B - 1), X, 0 if jar_near else 7, 0, 2)
    return p


def directed_sibling_exclusion(rnd):
    """Directed family: a node that already inherits exclusions declares a dependency with exclusions of its own
    and, after it, a sibling dependency through which the excluded artifact is reachable: exclusions hold along
    the path they are declared on, not for siblings."""
    p = skeleton2(rnd, 1)
    for k in list(p):
        if k.endswith("t") and (k.startswith("p") or k.startswith("r")):
            p[k] = 0
    p.update({"np": 4, "allsoft": 1, "mgt": 0})
    A, B, C, Y = rnd.sample([1, 2, 3, 4], 4)

    def put(tag, t, kind=0, x=0, c=1, r=0):
        p.update({tag + "t": t, tag + "k": kind, tag + "x": x, tag + "c": c, tag + "r": r})
    # the root's declaration of A carries an exclusion that excludes nothing that matters (A itself, or B's twin)
    put("r0", A, 4, rnd.choice([A - 1, A - 1, B - 1 if False else A - 1]), rnd.choice([0, 1]))
    if rnd.random() < 0.3:
        put("r1", rnd.choice([B, C]), 0, 0, 1)       # sometimes one of them is also a direct dependency
    for x in (A, B, C, Y):
        p["nv%d" % (x - 1)] = 1
        p["mj%d0" % (x - 1)] = 1
    first = rnd.random() < 0.8   # the excluding declaration comes first (the other order must hold as well)
    put("p%d0s%d" % (A - 1, 0 if first else 1), B, 4, Y - 1, rnd.choice([0, 1]))
    put("p%d0s%d" % (A - 1, 1 if first else 0), C, 0, 0, 1)
    put("p%d0s0" % (C - 1), Y, 0, 0, rnd.choice([0, 1]))
    if rnd.random() < 0.5:
        put("p%d0s0" % (B - 1), Y, 0, 0, 1)          # B reaches Y too: excluded on that path
    return p


def run(tier):
    base = dict(unwind=120, timeout_s=600 if tier == "quick" else 3000, summarise=SUM, max_witnesses=1, witness_every=1000, panic_is_violation=True)
    jobs = []
    q = tier == "quick"
    tmpl = [0, 1, 2, 3] if q else range(7)
    for n in ([1, 2] if q else [1, 2, 3]):
        combos = list(itertools.product(tmpl, repeat=n))
        if not q and n == 3:
            combos = combos[::5]
        for rs in combos:
            for listed in ([7, 5] if q else [7, 5, 2, 0]):
                p = {"n": n, "listed": listed}
                for i, t in enumerate(rs):
                    p["r%d" % i] = t
                jobs.append(dict(base, harness="VerifC07FindMatch", params=p))
    if q:
        # three requirements: one hard range among two soft ones, at every position
        for hard in range(1, 7):
            for pos in range(3):
                rs = [0, 0, 0]
                rs[pos] = hard
                for listed in (7, 5):
                    p = {"n": 3, "listed": listed}
                    for i, t in enumerate(rs):
                        p["r%d" % i] = t
                    jobs.append(dict(base, harness="VerifC07FindMatch", params=p))
    for te in range(7):
        jobs.append(dict(base, harness="VerifC07Exclusions", params={"te": te}))
    for o in range(8):
        jobs.append(dict(base, harness="VerifC07Imports", params={"opt": o}))
    for t1 in range(4):
        for t2 in range(4):
            jobs.append(dict(base, harness="VerifC07PackageKey", params={"t1": t1, "t2": t2}))
    import random
    rnd = random.Random(20261002)
    nsk = 80 if q else 800
    rbase = dict(base, unwind=400, max_steps=50_000_000, max_depth=200, timeout_s=300 if q else 1200, witness_every=50)
    for i in range(nsk):
        allsoft = 1 if i % 2 == 0 else 0
        p = {"allsoft": allsoft, "mgt": 0, "mgtr": 0}
        kinds = [0, 0, 0, 1, 2, 3, 4] if allsoft else [0, 0, 1, 2, 3, 4, 5]
        reqs = [0, 1, 6] if allsoft else [0, 1, 2, 3, 4, 5, 6]
        targets = [1, 2, 3]
        rnd.shuffle(targets)
        for s in range(3):
            p["r%dt" % s] = targets[s] if (s == 0 or rnd.random() < 0.7) else 0
            p["r%dr" % s] = rnd.choice(reqs)
            p["r%dk" % s] = rnd.choice(kinds)
            p["r%dx" % s] = rnd.randrange(3)
        if not allsoft and rnd.random() < 0.4:
            p["mgt"] = rnd.choice([1, 2, 3])
            p["mgtr"] = rnd.choice([0, 1, 6])
        for pi in range(3):
            p["nv%d" % pi] = rnd.choice([1, 2, 3])
            for vi in range(3):
                p["p%d%dt" % (pi, vi)] = rnd.choice([0, 1, 2, 3])
                p["p%d%dr" % (pi, vi)] = rnd.choice(reqs)
                p["p%d%dk" % (pi, vi)] = rnd.choice(kinds)
                p["p%d%dx" % (pi, vi)] = rnd.randrange(3)
        jobs.append(dict(rbase, harness="VerifC07Resolve", params=p))
    # directed family: a diamond (the root requires two artifacts that both require the third) with an exclusion
    # on one of the root's declarations; all placements of the three artifacts, the exclusion naming either the
    # shared artifact or the sibling
    for perm in itertools.permutations([1, 2, 3]):
        a, b, c = perm
        for exslot in (0, 1):
            for extarget in (c, b if exslot == 0 else a):
                p = {"allsoft": 1, "mgt": 0, "mgtr": 0}
                for s in range(3):
                    p.update({"r%dt" % s: 0, "r%dr" % s: 0, "r%dk" % s: 0, "r%dx" % s: 0})
                p.update({"r0t": a, "r1t": b})
                p["r%dk" % exslot] = 4
                p["r%dx" % exslot] = extarget - 1
                for pi in range(3):
                    p["nv%d" % pi] = 2
                    for vi in range(3):
                        tgt = c if (pi + 1) in (a, b) else 0
                        p.update({"p%d%dt" % (pi, vi): tgt, "p%d%dr" % (pi, vi): 0, "p%d%dk" % (pi, vi): 0, "p%d%dx" % (pi, vi): 0})
                jobs.append(dict(rbase, harness="VerifC07Resolve", params=p))
    rnd2 = random.Random(20261008)
    for i in range(600 if q else 8000):
        jobs.append(dict(rbase, harness="VerifC07Resolve2", params=skeleton2(rnd2, 1 if i % 3 == 0 else 0)))
    for i in range(30 if q else 300):
        jobs.append(dict(rbase, harness="VerifC07Resolve2", params=directed_sibling_exclusion(rnd2)))
    for i in range(16 if q else 160):
        jobs.append(dict(rbase, harness="VerifC07Resolve2", params=directed_explicit_jar(rnd2)))
    lemmas = [j for j in jobs if not j["harness"].startswith("VerifC07Resolve")]
    whole = [j for j in jobs if j["harness"].startswith("VerifC07Resolve")]
    # two overlays: a change to /repo that stops the unit-lemma harness from compiling (it names unexported helpers)
    # leaves the whole-resolver harness, which uses the public API only, running
    return run_property("C07", tier, [Group("rmaven", lemmas, files=["c07.go", "c07r.go", "c07r2.go", "c05shared.go"]), Group("rmaven", whole, files=["c07r.go", "c07r2.go", "c05shared.go"])],
                        required_covers=["requirements parsed", "match expected", "no candidate", "excluded", "not excluded", "dependency followed",
                                         "dependency skipped", "same artifact", "different artifact", "resolved", "a graph with several nodes", "nearest-wins checked", "a declaration excluded on its path"],
                        assumptions=["unit lemmas: findMatch, isExcluded/parseExclusions/mergeExclusions, imports, packageKeyForDependency",
                                     "whole resolver: universe skeletons (3 artifacts + root, <=3 versions, one requirement slot per version, three for the root, optional root dependencyManagement entry) are a fixed pseudo-random sample; version numbers and the digits in requirements are symbolic in 1..4; the nearest-wins clause, with exclusions inherited along paths, is asserted against a breadth-first reference on the skeletons with soft requirements only (random sample plus a directed diamond-with-exclusion family and, in the second generation, a directed family in which a node that inherits exclusions declares an excluding dependency before a sibling through which the excluded artifact is reachable)"],
                        bounds={"requirements": 2 if q else 3, "listed_versions": 3, "digits": "1-4"})
