"""C07 — Maven mediation rules (unit lemmas)."""
import itertools
from vlib.runner import Group, run_property

SUM = ["deps.dev/util/semver.compare", "(*deps.dev/util/semver.Constraint).Match", "(deps.dev/util/resolve/internal/attr.Set).Compare"]


def run(tier):
    base = dict(unwind=120, timeout_s=600 if tier == "quick" else 3000, summarise=SUM, max_witnesses=1, witness_every=1000, panic_is_violation=True)
    jobs = []
    q = tier == "quick"
    tmpl = [0, 1, 2, 3] if q else range(7)
    for n in ([1, 2] if q else [1, 2, 3]):
        combos = list(itertools.product(tmpl, repeat=n))
        if not q and n == 3:
            combos = combos[::5]
        for rs in combos:
            for listed in ([7, 5] if q else [7, 5, 2, 0]):
                p = {"n": n, "listed": listed}
                for i, t in enumerate(rs):
                    p["r%d" % i] = t
                jobs.append(dict(base, harness="VerifC07FindMatch", params=p))
    for te in range(7):
        jobs.append(dict(base, harness="VerifC07Exclusions", params={"te": te}))
    for o in range(8):
        jobs.append(dict(base, harness="VerifC07Imports", params={"opt": o}))
    for t1 in range(4):
        for t2 in range(4):
            jobs.append(dict(base, harness="VerifC07PackageKey", params={"t1": t1, "t2": t2}))
    return run_property("C07", tier, [Group("rmaven", jobs)],
                        required_covers=["requirements parsed", "match expected", "no candidate", "excluded", "not excluded", "dependency followed",
                                         "dependency skipped", "same artifact", "different artifact"],
                        assumptions=["unit lemmas only: findMatch, isExcluded/parseExclusions/mergeExclusions, imports, packageKeyForDependency; the whole-graph clauses (nearest-wins, management override along paths) are not decided here"],
                        bounds={"requirements": 2 if q else 3, "listed_versions": 3, "digits": "1-4"})
