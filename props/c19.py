"""C19 — attribute sets are values with a faithful text form."""
import itertools
from vlib.runner import Group, run_property

SUM = ["(deps.dev/util/resolve/internal/attr.Set).Compare"]


def run(tier):
    jobs = []
    base = dict(unwind=80, timeout_s=600, summarise=SUM, max_witnesses=1, witness_every=500, panic_is_violation=True)
    presents = [0, 1, 3, 5] if tier == "quick" else list(range(8))
    lens = [1] if tier == "quick" else [0, 1, 2]
    for pa, pb, pc in itertools.product(presents, repeat=3):
        for l in lens:
            jobs.append(dict(base, harness="VerifC19Order", params={"pa": pa, "pb": pb, "pc": pc, "la": l, "lb": l, "lc": l}))
    if tier != "quick":
        for pa, pb, pc in itertools.product([1, 3], repeat=3):
            jobs.append(dict(base, harness="VerifC19Order", params={"pa": pa, "pb": pb, "pc": pc, "la": 1, "lb": 2, "lc": 0}))
    for pa in range(8):
        for op in range(3):
            for nk in range(3):
                for ln in ([0, 1] if tier == "quick" else [0, 1, 2]):
                    jobs.append(dict(base, harness="VerifC19Clone", params={"pa": pa, "la": 1, "op": op, "nk": nk, "ln": ln}))
    vj = []
    vbase = dict(unwind=120, timeout_s=600, summarise=SUM, max_witnesses=1, witness_every=200, panic_is_violation=True)
    for nk in (0, 1, 2):
        for k0 in (range(6) if tier != "quick" else [0, 3]):
            for l0 in ([1, 2] if tier == "quick" else [0, 1, 2, 3]):
                for l1 in ([1] if nk < 2 or tier == "quick" else [0, 1, 2]):
                    if nk == 0 and (k0, l0) != (0, 1):
                        continue
                    vj.append(dict(vbase, harness="VerifC19TextRoundTrip", params={"nk": nk, "k0": k0, "len0": l0, "len1": l1, "word0": 0, "word1": 0, "word2": 0}))
    for w in range(1, 8):
        for k0 in ([0, 3] if tier == "quick" else range(6)):
            vj.append(dict(vbase, harness="VerifC19TextRoundTrip", params={"nk": 1, "k0": k0, "len0": 1, "len1": 1, "word0": w, "word1": 0, "word2": 0}))
            vj.append(dict(vbase, harness="VerifC19TextRoundTrip", params={"nk": 2, "k0": k0, "len0": 1, "len1": 1, "word0": 0, "word1": w, "word2": 0}))
    groups = [Group("attr", jobs), Group("versiontest", vj)]
    return run_property("C19", tier, groups, required_covers=["strict chain", "equal pair", "plain assignment shares the attribute map", "set written", "a key written a second time", "a value that spells an attribute key"],
                        assumptions=["sets are built through SetAttr on keys 0, 5, 10 with symbolic values and a symbolic flag mask"],
                        bounds={"keys": 3, "value_len": lens})
