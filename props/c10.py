"""C10 — a version's canonical string denotes the same version."""
from vlib.runner import Group, run_property

SYSTEMS = {0: "Default", 1: "Cargo", 2: "Go", 3: "Maven", 4: "NPM", 5: "NuGet", 6: "PyPI", 7: "RubyGems", 8: "Composer"}
SUM = ["deps.dev/util/semver.compare"]


def run(tier):
    n1 = 4 if tier == "quick" else 6
    n2 = 2 if tier == "quick" else 3
    jobs = []
    base = dict(panic_is_violation=False, unwind=40, timeout_s=600 if tier == "quick" else 3000, summarise=SUM,
                max_witnesses=3, witness_every=100)
    for sys in SYSTEMS:
        for n in range(1, n1 + 1):
            jobs.append(dict(base, harness="VerifC10RoundTrip", params={"sys": sys, "n": n}))
        for n in range(1, n2 + 1):
            for m in range(n, n2 + 1):
                jobs.append(dict(base, harness="VerifC10SameCanon", params={"sys": sys, "n": n, "m": m}))
    pj = [dict(base, harness="VerifC10CanonVersion", params={"n": n}) for n in range(0, n1 + 1)]
    return run_property("C10", tier, [Group("semver", jobs), Group("pypi", pj)],
                        required_covers=["accepted in domain", "same canon", "version canonicalised to a different string"],
                        assumptions=["version strings are arbitrary byte strings of the stated lengths",
                                     "RubyGems versions with a prerelease segment are outside the property's domain"],
                        bounds={"round_trip_len": n1, "same_canon_pair_len": n2})
