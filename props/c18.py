"""C18 — the API-backed client maps bundles and aliases consistently (sequential unit clauses only)."""
from vlib.runner import Group, run_property


def run(tier):
    q = tier == "quick"
    base = dict(unwind=120, timeout_s=600 if q else 3000, max_witnesses=2, witness_every=200, panic_is_violation=True,
                summarise=["(deps.dev/util/resolve/internal/attr.Set).Compare"])
    jobs = []
    for n in range(1, (4 if q else 6) + 1):
        for section in range(4):
            jobs.append(dict(base, harness="VerifC18Alias", params={"n": n, "section": section}))
    # bundle trees: parent index per bundle (0 = root, k = bundle k-1), depth <= 3
    trees = [[0], [0, 0], [0, 1], [0, 1, 2], [0, 1, 1], [0, 0, 1], [0, 0, 2]]
    for t in trees:
        for order in (0, 1):
            # which bundles are installed under an alias (directory name differs from the package name)
            for al in ([0, 1 << (len(t) - 1), (1 << len(t)) - 1] if q else range(1 << len(t))):
                p = {"nb": len(t), "order": order}
                for i, par in enumerate(t):
                    p["par%d" % i] = par
                    p["al%d" % i] = (al >> i) & 1
                jobs.append(dict(base, harness="VerifC18Bundles", params=p))
    # several dependencies in one response: sections x aliased/scoped flags
    import itertools
    for nd in (2, 3):
        secs = list(itertools.combinations_with_replacement(range(4), nd))
        for sec in secs:
            for alimask in ([(1 << nd) - 1, 1, 0] if q else range(1 << nd)):
                p = {"nd": nd, "nbd": 1 if sum(sec) % 2 else 0}
                for i in range(nd):
                    p["sec%d" % i] = sec[i]
                    p["ali%d" % i] = (alimask >> i) & 1
                    p["scoped%d" % i] = 1 if (i + sum(sec)) % 3 == 0 else 0
                jobs.append(dict(base, harness="VerifC18Sections", params=p))
    return run_property("C18", tier, [Group("resolve", jobs)],
                        required_covers=["alias with a range", "scoped real name", "several bundles", "a bundle installed under an alias", "several dependencies in one response"],
                        assumptions=["sequential unit clauses on flattenNPMDeps and npmRequirements with symbolic names/requirements/bundle names and versions; bundle trees up to depth 3 from job parameters",
                                     "the gRPC round trip (equality with the in-memory client through a fake Insights service) and all goroutine interleavings are not decided: the engine has no scheduler and does not execute grpc"],
                        bounds={"alias_body_len": 4 if q else 6, "bundles": 3, "depth": 3})
