"""C18 — the API-backed client maps bundles and aliases consistently (sequential unit clauses only)."""
from vlib.runner import Group, run_property


def run(tier):
    q = tier == "quick"
    base = dict(unwind=120, timeout_s=600 if q else 3000, max_witnesses=2, witness_every=200, panic_is_violation=True,
                summarise=["(deps.dev/util/resolve/internal/attr.Set).Compare"])
    jobs = []
    for n in range(1, (4 if q else 6) + 1):
        for section in range(4):
            jobs.append(dict(base, harness="VerifC18Alias", params={"n": n, "section": section}))
    # bundle trees: parent index per bundle (0 = root, k = bundle k-1), depth <= 3
    trees = [[0], [0, 0], [0, 1], [0, 1, 2], [0, 1, 1], [0, 0, 1], [0, 0, 2]]
    for t in trees:
        for order in (0, 1):
            p = {"nb": len(t), "order": order}
            for i, par in enumerate(t):
                p["par%d" % i] = par
            jobs.append(dict(base, harness="VerifC18Bundles", params=p))
    return run_property("C18", tier, [Group("resolve", jobs)],
                        required_covers=["alias with a range", "scoped real name", "several bundles"],
                        assumptions=["sequential unit clauses on flattenNPMDeps and npmRequirements with symbolic names/requirements/bundle names and versions; bundle trees up to depth 3 from job parameters",
                                     "the gRPC round trip (equality with the in-memory client through a fake Insights service) and all goroutine interleavings are not decided: the engine has no scheduler and does not execute grpc"],
                        bounds={"alias_body_len": 4 if q else 6, "bundles": 3, "depth": 3})
