"""C18 — the API-backed client maps bundles and aliases consistently (sequential unit clauses only)."""
from vlib.runner import Group, run_property


def run(tier):
    q = tier == "quick"
    base = dict(unwind=120, timeout_s=600 if q else 3000, max_witnesses=2, witness_every=200, panic_is_violation=True,
                summarise=["(deps.dev/util/resolve/internal/attr.Set).Compare"])
    jobs = []
    for n in range(1, (4 if q else 6) + 1):
        for section in range(4):
            jobs.append(dict(base, harness="VerifC18Alias", params={"n": n, "section": section}))
    # bundle trees: parent index per bundle (0 = root, k = bundle k-1), depth <= 3
    trees = [[0], [0, 0], [0, 1], [0, 1, 2], [0, 1, 1], [0, 0, 1], [0, 0, 2]]
    for t in trees:
        for order in (0, 1):
            # which bundles are installed under an alias (directory name differs from the package name)
            for al in ([0, 1 << (len(t) - 1), (1 << len(t)) - 1] if q else range(1 << len(t))):
                p = {"nb": len(t), "order": order}
                for i, par in enumerate(t):
                    p["par%d" % i] = par
                    p["al%d" % i] = (al >> i) & 1
                jobs.append(dict(base, harness="VerifC18Bundles", params=p))
    # several dependencies in one response: sections x aliased/scoped flags
    import itertools
    for nd in (2, 3):
        secs = list(itertools.combinations_with_replacement(range(4), nd))
        for sec in secs:
            for alimask in ([(1 << nd) - 1, 1, 0] if q else range(1 << nd)):
                p = {"nd": nd, "nbd": 1 if sum(sec) % 2 else 0}
                for i in range(nd):
                    p["sec%d" % i] = sec[i]
                    p["ali%d" % i] = (alimask >> i) & 1
                    p["scoped%d" % i] = 1 if (i + sum(sec)) % 3 == 0 else 0
                jobs.append(dict(base, harness="VerifC18Sections", params=p))
    # end to end, sequential: npm Resolve over the API-backed client (stand-in service) against the in-memory client
    import random
    from props import c06
    rnd = random.Random(20261007)
    ebase = dict(unwind=400, timeout_s=300 if q else 1200, max_witnesses=1, witness_every=50, panic_is_violation=True,
                 max_steps=50_000_000, max_depth=200, summarise=c06.SUM)
    ejobs = []
    for i in range(150 if q else 3000):
        sk = c06.skeleton2(rnd, alias_p=0.3 if i % 3 == 0 else 0.0)
        for k in list(sk):
            if k.startswith("next"):
                sk[k] = -1          # the API reports only the default (latest) version
            if k.startswith("bl"):
                sk[k] = 0           # and no deprecation
            if k.endswith("k") and sk[k] == 5:
                sk[k] = 2           # dev+optional is not a section of its own
        for k in list(sk):
            if k.endswith("k") and sk[k] == 4:
                sk[k[:-1] + "r"] = 0  # bundleDependencies are names: the requirement is *
                sk[k[:-1] + "a"] = 0
        ejobs.append(dict(ebase, harness="VerifC18EndToEnd", params=sk))
    for i in range(30 if q else 600):
        sk = dict(ejobs[i % len(ejobs)]["params"])
        sk.update(warm=i % 2, alt=i)
        ejobs.append(dict(ebase, harness="VerifC18Shared", params=sk))
    return run_property("C18", tier, [Group("resolve", jobs), Group("rnpm", ejobs, files=["c06.go", "c06v2.go", "c05shared.go", "c18e2e.go"])],
                        required_covers=["alias with a range", "scoped real name", "several bundles", "a bundle installed under an alias", "several dependencies in one response", "a graph with several nodes through both clients", "one Resolve call checked against the shared-state discipline"],
                        assumptions=["sequential unit clauses on flattenNPMDeps and npmRequirements with symbolic names/requirements/bundle names and versions; bundle trees up to depth 3 from job parameters",
                                     "end to end, sequential: the npm resolver over the API-backed client, served by an in-process stand-in that implements the generated InsightsClient interface from the universe, gives the same graph as over the in-memory client (second-generation C06 skeletons restricted to what the API can express: latest tag only, the four sections, bundleDependencies by name, aliases; bundled packages are not generated end to end)", "race clause decided sequentially: the shared-state (lockset) discipline of DESIGN §11.1 on one npm Resolve through an API-backed client whose root version bundles a package (so that the table of bundled versions is written), counterexamples replayed as 8 concurrent resolutions under the race detector", "gRPC transport itself and goroutine interleavings are not explored: the engine has no scheduler and does not execute grpc"],
                        bounds={"alias_body_len": 4 if q else 6, "bundles": 3, "depth": 3})
