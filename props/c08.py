"""C08 — PyPI solution consistency (unit lemmas of the resolver state)."""
from vlib.runner import Group, run_property

SUM = ["(deps.dev/util/resolve.PackageKey).Compare"]


def run(tier):
    base = dict(unwind=120, timeout_s=600 if tier == "quick" else 3000, summarise=SUM, max_witnesses=1, witness_every=500, panic_is_violation=True)
    jobs = []
    q = tier == "quick"
    for n in ([1, 2, 3] if q else [1, 2, 3, 4]):
        jobs.append(dict(base, harness="VerifC08Criteria", params={"n": n}))
        jobs.append(dict(base, harness="VerifC08VersionMap", params={"n": n}))
        jobs.append(dict(base, harness="VerifC08FilterSlice", params={"n": n}))
    for la in range(0, 3 if q else 4):
        for lb in range(0, 3 if q else 4):
            jobs.append(dict(base, harness="VerifC08Intersect", params={"la": la, "lb": lb}))
    return run_property("C08", tier, [Group("rpypi", jobs)],
                        required_covers=["puts done", "sets done", "non-empty intersection", "empty intersection", "something filtered"],
                        assumptions=["unit lemmas only (criteria, versionMap, intersect, filterSlice, copy independence); the whole-resolution clauses are not decided here"],
                        bounds={"entries": 3 if q else 4})
