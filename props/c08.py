"""C08 — PyPI solution consistency (unit lemmas of the resolver state)."""
from vlib.runner import Group, run_property

SUM = ["(deps.dev/util/resolve.PackageKey).Compare"]


def run(tier):
    base = dict(unwind=120, timeout_s=600 if tier == "quick" else 3000, summarise=SUM, max_witnesses=1, witness_every=500, panic_is_violation=True)
    jobs = []
    q = tier == "quick"
    for n in ([1, 2, 3] if q else [1, 2, 3, 4]):
        jobs.append(dict(base, harness="VerifC08Criteria", params={"n": n}))
        jobs.append(dict(base, harness="VerifC08VersionMap", params={"n": n}))
        jobs.append(dict(base, harness="VerifC08FilterSlice", params={"n": n}))
    for la in range(0, 3 if q else 4):
        for lb in range(0, 3 if q else 4):
            jobs.append(dict(base, harness="VerifC08Intersect", params={"la": la, "lb": lb}))
    import random
    rnd = random.Random(20261003)
    nsk = 40 if q else 600
    rbase = dict(base, unwind=400, max_steps=50_000_000, max_depth=200, timeout_s=600 if q else 2400, witness_every=50,
                 summarise=SUM + ["deps.dev/util/semver.compare", "(deps.dev/util/resolve/internal/attr.Set).Compare", "(*deps.dev/util/semver.Constraint).Match",
                                  "(*deps.dev/util/semver.Constraint).MatchVersionPrerelease", "(*deps.dev/util/semver.Constraint).MatchVersion"])
    for i in range(nsk):
        p = {}
        targets = [1, 2, 3]
        rnd.shuffle(targets)  # at most one requirement per (version, package), as the property's domain says
        for s in range(3):
            p["r%dt" % s] = targets[s] if (s == 0 or rnd.random() < 0.7) else 0
            p["r%dr" % s] = rnd.randrange(8)
            p["r%dm" % s] = rnd.choice([0, 0, 1, 2, 3])
        for pi in range(3):
            nv = rnd.choice([1, 2] if q else [1, 2, 3])
            p["nv%d" % pi] = nv
            p["pre%d" % pi] = rnd.choice([-1, -1] + list(range(nv)))
            for vi in range(3):
                p["p%d%dt" % (pi, vi)] = rnd.choice([0, 0, 1, 2, 3])
                p["p%d%dr" % (pi, vi)] = rnd.randrange(8)
                p["p%d%dm" % (pi, vi)] = rnd.choice([0, 0, 0, 1, 2])
        jobs.append(dict(rbase, harness="VerifC08Resolve", params=p))
    return run_property("C08", tier, [Group("rpypi", jobs)],
                        required_covers=["puts done", "sets done", "non-empty intersection", "empty intersection", "something filtered", "resolved", "a graph with several nodes", "true marker checked", "false marker checked"],
                        assumptions=["unit lemmas: criteria, versionMap, intersect, filterSlice, copy independence",
                                     "whole resolver: universe skeletons (3 packages + root, <=3 versions, one requirement slot per version, three for the root, markers over python_version/os_name/extra) are a fixed pseudo-random sample; version numbers, specifier numbers and marker thresholds are symbolic digits in 1..4; requested extras are not generated"],
                        bounds={"entries": 3 if q else 4})
