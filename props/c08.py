"""C08 — PyPI solution consistency (unit lemmas of the resolver state)."""
import random
from vlib.runner import Group, run_property

SUM = ["(deps.dev/util/resolve.PackageKey).Compare"]


SPECS2 = ["", "==D.0", ">=D.0", "<D.0", "!=D.0", "~=D.0", ">=D.0,<E.0", "<=D.0", ">=D.0rc1", ">D.0", "==D.*", "<=D.0rc1"]  # = harness c08r2Specs


def skeleton2(rnd, cyc=0.3, symbolic=5):
    """Second-generation PyPI skeleton: two slots per version, requirements on the root package, extras."""
    np = rnd.choice([3, 3, 4])
    p = {"rv2": rnd.choice([0, 1, 1]), "np": np}
    pk = [1, 2, 3] + ([5] if np == 4 else [])  # target numbers of the packages (4 is the root package)

    def slot(tag, t, allow_extra=True):
        p[tag + "t"] = t
        p[tag + "r"] = rnd.choice([0, 0, 1, 2, 2, 3, 4, 5, 6, 7, 8, 8, 9, 10, 11])
        p[tag + "m"] = rnd.choice([0, 0, 0, 0, 1, 2, 3, 4, 5])
        p[tag + "e"] = rnd.choice([0, 0, 0, 1, 2, 3]) if (allow_extra and t not in (0, 4)) else 0
    targets = list(pk)
    rnd.shuffle(targets)
    for s in range(3):
        slot("r%d" % s, targets[s] if (s == 0 or rnd.random() < 0.7) else 0)
        if p["r%dm" % s] >= 3:
            p["r%dm" % s] = 0  # nobody requests extras of the root
    slot("q0", rnd.choice([0] + pk))
    for pi in (0, 1, 2, 4):
        nv = rnd.choice([1, 2, 2, 3])
        p["nv%d" % pi] = nv
        used = set()
        for vi in range(3):
            tag = "%d%d" % (pi, vi)
            while True:
                key = (rnd.choice([1, 2, 3]), rnd.choice([0, 0, 0, 1]))
                if key not in used:
                    used.add(key)
                    break
            p["mj" + tag], p["pr" + tag] = key
            others = [t for t in pk if t != pi + 1] or [1]
            cands = [0] + others + others + ([4, 4, 4] if rnd.random() < cyc else [])
            t0 = rnd.choice(cands)
            slot("p%ss0" % tag, t0)
            t1 = rnd.choice([0, 0] + [t for t in others + [4] if t != t0])
            slot("p%ss1" % tag, t1)
            if rnd.random() < 0.08:
                # a version that requires its own package with a further extra, under one of its extras
                slot("p%ss1" % tag, pi + 1)
                p["p%ss1r" % tag] = 0
                p["p%ss1m" % tag] = rnd.choice([3, 4])
                p["p%ss1e" % tag] = 1 if p["p%ss1m" % tag] == 4 else 2
    left = symbolic
    tags = ["r0", "r1", "r2", "q0"] + ["p%d%ds%d" % (pi, vi, s) for vi in range(3) for pi in (0, 1, 2, 4) for s in range(2)]
    for tag in tags:
        nd = (SPECS2[p[tag + "r"]].count("D") + (1 if p[tag + "m"] in (1, 2) else 0)) if p[tag + "t"] else 0
        if nd and left >= 1:
            p[tag + "c"] = 0
            left -= 1
        else:
            p[tag + "c"] = rnd.choice([1, 2, 3])
    return p


def directed_repin(rnd):
    """Directed family: a package with several versions that all state the same requirement on a third package,
    and another package whose requirement can force the first one down (a pin replaced without backtracking)."""
    p = skeleton2(rnd, cyc=0.0)
    for k in list(p):
        if k.endswith("t") and (k.startswith("p") or k.startswith("r") or k.startswith("q")):
            p[k] = 0
    p["np"] = 3
    a, b, x = rnd.sample([1, 2, 3], 3)

    def put(tag, t, r, c, m=0, e=0):
        p.update({tag + "t": t, tag + "r": r, tag + "c": c, tag + "m": m, tag + "e": e})
    put("r0", a, rnd.choice([0, 2]), 1)
    put("r1", b, 0, 1)
    if rnd.random() < 0.3:
        put("r2", x, 0, 1)
    na = rnd.choice([2, 3])
    p["nv%d" % (a - 1)] = na
    majors = rnd.sample([1, 2, 3], na)
    same = rnd.choice([0, 0, 2, 7])  # the requirement every version of a states on x: same text
    for vi in range(na):
        tag = "%d%d" % (a - 1, vi)
        p["mj" + tag], p["pr" + tag] = majors[vi], 0
        put("p%ss0" % tag, x, same, 1)
        put("p%ss1" % tag, 0, 0, 1)
    p["nv%d" % (b - 1)] = 1
    tagb = "%d0" % (b - 1)
    p["mj" + tagb], p["pr" + tagb] = 1, 0
    put("p%ss0" % tagb, a, rnd.choice([3, 7, 1, 4, 6]), 0)   # symbolic digit: <D.0, <=D.0, ==D.0, !=D.0, range
    put("p%ss1" % tagb, x if rnd.random() < 0.4 else 0, 0, 1)
    p["nv%d" % (x - 1)] = rnd.choice([1, 2])
    for vi in range(2):
        tag = "%d%d" % (x - 1, vi)
        p["mj" + tag], p["pr" + tag] = vi + 1, 0
        put("p%ss0" % tag, 0, 0, 1)
        put("p%ss1" % tag, 0, 0, 1)
    return p


def directed_rootcycle(rnd):
    """Directed family: the root package lies on a cycle and gets two requirements, one of which admits
    prereleases; a third package (the other root of the C05 harness, parameter alt) reaches the same two
    requirement texts; the root package has a second, higher version."""
    p = skeleton2(rnd, cyc=0.0)
    for k in list(p):
        if k.endswith("t") and (k.startswith("p") or k.startswith("r") or k.startswith("q")):
            p[k] = 0
    p["np"] = 3
    p["rv2"] = 1
    a, b, c = rnd.sample([1, 2, 3], 3)

    def put(tag, t, r, c_, m=0, e=0):
        p.update({tag + "t": t, tag + "r": r, tag + "c": c_, tag + "m": m, tag + "e": e})
    put("r0", a, 0, 1)
    put("r1", b, 0, 1)
    for x in (a, b, c):
        p["nv%d" % (x - 1)] = 1
        p["mj%d0" % (x - 1)], p["pr%d0" % (x - 1)] = 1, 0
    pre, plain = rnd.choice([8, 8, 11]), rnd.choice([2, 2, 0, 7, 9, 4])
    sym = rnd.random() < 0.5
    put("p%d0s0" % (a - 1), 4, pre, 0 if sym else (1 if pre == 8 else 2))
    put("p%d0s0" % (b - 1), 4, plain, 0 if sym else (2 if plain == 7 else 1))
    put("p%d0s0" % (c - 1), a, 0, 1)
    put("p%d0s1" % (c - 1), b, 0, 1)
    # entries are listed root, r 2.0, then the versions of a, b, c in package order: one version each
    p["alt"] = 1 + (c - 1)
    return p


def run(tier):
    base = dict(unwind=120, timeout_s=600 if tier == "quick" else 3000, summarise=SUM, max_witnesses=1, witness_every=500, panic_is_violation=True)
    jobs = []
    q = tier == "quick"
    for n in ([1, 2, 3] if q else [1, 2, 3, 4]):
        jobs.append(dict(base, harness="VerifC08Criteria", params={"n": n}))
        jobs.append(dict(base, harness="VerifC08VersionMap", params={"n": n}))
        jobs.append(dict(base, harness="VerifC08FilterSlice", params={"n": n}))
    for la in range(0, 3 if q else 4):
        for lb in range(0, 3 if q else 4):
            jobs.append(dict(base, harness="VerifC08Intersect", params={"la": la, "lb": lb}))
    import random
    rnd = random.Random(20261003)
    nsk = 40 if q else 600
    rbase = dict(base, unwind=400, max_steps=50_000_000, max_depth=200, timeout_s=600 if q else 2400, witness_every=50,
                 summarise=SUM + ["deps.dev/util/semver.compare", "(deps.dev/util/resolve/internal/attr.Set).Compare", "(*deps.dev/util/semver.Constraint).Match",
                                  "(*deps.dev/util/semver.Constraint).MatchVersionPrerelease", "(*deps.dev/util/semver.Constraint).MatchVersion"])
    for i in range(nsk):
        p = {}
        targets = [1, 2, 3]
        rnd.shuffle(targets)  # at most one requirement per (version, package), as the property's domain says
        for s in range(3):
            p["r%dt" % s] = targets[s] if (s == 0 or rnd.random() < 0.7) else 0
            p["r%dr" % s] = rnd.randrange(8)
            p["r%dm" % s] = rnd.choice([0, 0, 1, 2, 3])
        for pi in range(3):
            nv = rnd.choice([1, 2] if q else [1, 2, 3])
            p["nv%d" % pi] = nv
            p["pre%d" % pi] = rnd.choice([-1, -1] + list(range(nv)))
            for vi in range(3):
                p["p%d%dt" % (pi, vi)] = rnd.choice([0, 0, 1, 2, 3])
                p["p%d%dr" % (pi, vi)] = rnd.randrange(8)
                p["p%d%dm" % (pi, vi)] = rnd.choice([0, 0, 0, 1, 2])
        jobs.append(dict(rbase, harness="VerifC08Resolve", params=p))
    rnd2 = random.Random(20261006)
    n2 = 1500 if q else 12000
    for i in range(n2):
        jobs.append(dict(rbase, harness="VerifC08Resolve2", params=skeleton2(rnd2, cyc=0.5 if i % 2 else 0.15)))
    for i in range(60 if q else 600):
        jobs.append(dict(rbase, harness="VerifC08Resolve2", params=directed_repin(rnd2)))
    for i in range(20 if q else 200):
        jobs.append(dict(rbase, harness="VerifC08Resolve2", params=directed_rootcycle(rnd2)))
    lemmas = [j for j in jobs if not j["harness"].startswith("VerifC08Resolve")]
    whole = [j for j in jobs if j["harness"].startswith("VerifC08Resolve")]
    return run_property("C08", tier, [Group("rpypi", lemmas, files=["c05.go", "c08.go", "c08r.go"]),
                                      Group("rpypi", whole, files=["c05.go", "c05shared.go", "c08r.go", "c08r2.go"])],
                        required_covers=["puts done", "sets done", "non-empty intersection", "empty intersection", "something filtered", "resolved", "a graph with several nodes", "true marker checked", "false marker checked", "an edge back to the root", "a requirement guarded by a requested extra"],
                        assumptions=["unit lemmas: criteria, versionMap, intersect, filterSlice, copy independence",
                                     "whole resolver: universe skeletons are a fixed pseudo-random sample. First generation: 3 packages + root, <=3 versions, one requirement slot per version, three for the root, markers over python_version/os_name/extra, version numbers, specifier numbers and marker thresholds symbolic digits in 1..4. Second generation: two slots per version, requirements on the root package (cycles; the root package has a second version), requested extras and extra-guarded requirements (extra on either side of ==), specifiers mentioning prereleases; version strings concrete, the digits of the first five requirements symbolic in 1..3"],
                        bounds={"entries": 3 if q else 4})
