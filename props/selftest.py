"""Engine self-test: standard-library models and instruction semantics against the native run, path by path."""
from vlib.runner import Group, run_property


def run(tier):
    base = dict(unwind=200, timeout_s=600, max_witnesses=100000, witness_every=1, panic_is_violation=False)
    jobs = []
    for n in (0, 1, 2, 3):
        jobs.append(dict(base, harness="VerifSelfStrings", params={"n": n}))
        jobs.append(dict(base, harness="VerifSelfASCII", params={"n": n}))
        jobs.append(dict(base, harness="VerifSelfUTF8", params={"n": n}))
    for n in (0, 1, 2, 3, 4):
        jobs.append(dict(base, harness="VerifSelfNumbers", params={"n": n}))
    jobs.append(dict(base, harness="VerifSelfNumbers", params={"n": 19}))
    jobs.append(dict(base, harness="VerifSelfArith", params={}))
    for n in (1, 2, 3, 4):
        jobs.append(dict(base, harness="VerifSelfSort", params={"n": n}))
    return run_property("SELFTEST", tier, [Group("semver", jobs)], max_witness_replays=20000,
                        assumptions=["every explored path is replayed natively; all observed values must be identical"],
                        bounds={"string_len": 3, "number_len": 4})
