"""C04 — parsing and matching entry points are total."""
from vlib.runner import Group, run_property

SYSTEMS = {0: "Default", 1: "Cargo", 2: "Go", 3: "Maven", 4: "NPM", 5: "NuGet", 6: "PyPI", 7: "RubyGems", 8: "Composer"}


def jobs_semver(tier):
    nparse = 4 if tier == "quick" else 6
    ncons = 3 if tier == "quick" else 5
    nset = 4 if tier == "quick" else 6
    npair = 2 if tier == "quick" else 3
    jobs = []
    base = dict(panic_is_violation=True, unwind_is_violation=True, unwind=40, timeout_s=600 if tier == "quick" else 3000,
                max_witnesses=3, witness_every=200)
    for sys in SYSTEMS:
        for n in range(0, nparse + 1):
            jobs.append(dict(base, harness="VerifC04Parse", params={"sys": sys, "n": n}))
        for n in range(0, ncons + 1):
            jobs.append(dict(base, harness="VerifC04Constraint", params={"sys": sys, "n": n}))
        for n in range(0, nset + 1):
            jobs.append(dict(base, harness="VerifC04Set", params={"sys": sys, "n": n}))
        for n in range(1, npair + 1):
            for m in range(1, npair + 1):
                jobs.append(dict(base, harness="VerifC04Compare", params={"sys": sys, "n": n, "m": m}))
                jobs.append(dict(base, harness="VerifC04ConstraintMatch", params={"sys": sys, "n": n, "m": m}))
    return jobs


def jobs_pypi(tier):
    base = dict(panic_is_violation=True, unwind_is_violation=True, unwind=60, timeout_s=600 if tier == "quick" else 3000,
                max_witnesses=3, witness_every=200)
    nd = 5 if tier == "quick" else 7
    nn = 4 if tier == "quick" else 6
    jobs = [dict(base, harness="VerifC04ParseDependency", params={"n": n}) for n in range(0, nd + 1)]
    jobs += [dict(base, harness="VerifC04Names", params={"n": n}) for n in range(0, nn + 1)]
    return jobs


def jobs_rpypi(tier):
    base = dict(panic_is_violation=True, unwind_is_violation=True, unwind=60, timeout_s=600 if tier == "quick" else 3000,
                max_witnesses=3, witness_every=200)
    nm = 4 if tier == "quick" else 6
    return [dict(base, harness="VerifC04Marker", params={"n": n}) for n in range(0, nm + 1)]


def run(tier):
    groups = [Group("semver", jobs_semver(tier)), Group("pypi", jobs_pypi(tier)), Group("rpypi", jobs_rpypi(tier))]
    return run_property("C04", tier, groups, required_covers=["accepted", "rejected", "canon computed"],
                        assumptions=["inputs are byte strings of the stated lengths, all 256 byte values"],
                        bounds={"semver": "see jobs table: n = string length"})
