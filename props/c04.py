"""C04 — parsing and matching entry points are total."""
from vlib.runner import Group, run_property

SYSTEMS = {0: "Default", 1: "Cargo", 2: "Go", 3: "Maven", 4: "NPM", 5: "NuGet", 6: "PyPI", 7: "RubyGems", 8: "Composer"}


def jobs_semver(tier):
    nparse = 4 if tier == "quick" else 6
    ncons = 3 if tier == "quick" else 5
    nset = 4 if tier == "quick" else 6
    npair = 2 if tier == "quick" else 3
    jobs = []
    base = dict(panic_is_violation=True, unwind_is_violation=True, unwind=40, timeout_s=600 if tier == "quick" else 3000,
                max_witnesses=3, witness_every=200)
    for sys in SYSTEMS:
        for n in range(0, nparse + 1):
            jobs.append(dict(base, harness="VerifC04Parse", params={"sys": sys, "n": n}))
        for n in range(0, ncons + 1):
            jobs.append(dict(base, harness="VerifC04Constraint", params={"sys": sys, "n": n}))
        for n in range(0, nset + 1):
            jobs.append(dict(base, harness="VerifC04Set", params={"sys": sys, "n": n}))
        for n in range(1, npair + 1):
            for m in range(1, npair + 1):
                jobs.append(dict(base, harness="VerifC04Compare", params={"sys": sys, "n": n, "m": m}))
                jobs.append(dict(base, harness="VerifC04ConstraintMatch", params={"sys": sys, "n": n, "m": m}))
        for shape in range(11):
            for n, m in ([(1, 1)] if tier == "quick" else [(1, 1), (2, 1), (1, 2), (2, 2)]):
                jobs.append(dict(base, harness="VerifC04ConstraintShape", params={"sys": sys, "shape": shape, "n": n, "m": m}))
    return jobs


def jobs_pypi(tier):
    base = dict(panic_is_violation=True, unwind_is_violation=True, unwind=60, timeout_s=600 if tier == "quick" else 3000,
                max_witnesses=3, witness_every=200)
    nd = 5 if tier == "quick" else 7
    nn = 4 if tier == "quick" else 6
    jobs = [dict(base, harness="VerifC04ParseDependency", params={"n": n}) for n in range(0, nd + 1)]
    jobs += [dict(base, harness="VerifC04Names", params={"n": n}) for n in range(0, nn + 1)]
    return jobs


def jobs_rpypi(tier):
    base = dict(panic_is_violation=True, unwind_is_violation=True, unwind=60, timeout_s=600 if tier == "quick" else 3000,
                max_witnesses=3, witness_every=200)
    nm = 4 if tier == "quick" else 6
    jobs = [dict(base, harness="VerifC04Marker", params={"n": n}) for n in range(0, nm + 1)]
    # well-formed markers: every variable x operator x literal kind, literal on either side
    for v in range(9):
        for o in range(9):
            for l in ([1, 3, 4, 8, 9] if tier == "quick" else range(12)):
                for rev in (0, 1):
                    if rev and (o == 6 or (tier == "quick" and (v + o + l) % 2)):
                        continue
                    jobs.append(dict(base, harness="VerifC04MarkerTemplate",
                                     params={"x0": 0, "rev0": rev, "v0": v, "o0": o, "l0": l, "w": (v + o) % 3, "q": l % 2}))
    return jobs


BASE = dict(panic_is_violation=True, unwind_is_violation=True, unwind=60, max_witnesses=3, witness_every=200)


def jobs_schema(tier):
    q = tier == "quick"
    base = dict(BASE, timeout_s=600 if q else 3000, unwind=80)
    jobs = []
    for n in range(0, (3 if q else 4) + 1):
        jobs.append(dict(base, harness="VerifC04ParseResolve", params={"n": n, "alpha": 0}))
        for sys in (1, 3):  # NPM, Maven
            jobs.append(dict(base, harness="VerifC04SchemaNew", params={"n": n, "alpha": 0, "sys": sys}))
    for n in range(4, (5 if q else 7) + 1):
        # the harness's own alphabet loop runs n x |alphabet| times: the unwinding bound grows with n
        jobs.append(dict(base, unwind=80 + 40 * n, harness="VerifC04ParseResolve", params={"n": n, "alpha": 1}))
        jobs.append(dict(base, unwind=80 + 40 * n, harness="VerifC04SchemaNew", params={"n": n, "alpha": 1, "sys": 1}))
    # row templates: depth of each row x kind of each row
    import itertools
    rows = 2 if q else 3
    for nr in range(1, rows + 1):
        for depths in itertools.product(range(0, 4), repeat=nr):
            if any(d > i + 2 for i, d in enumerate(depths)):
                continue
            for kinds in itertools.product(range(6), repeat=nr):
                if q and nr == 2 and (kinds[0] + 2 * kinds[1] + depths[0] + depths[1]) % 6 != 0:
                    continue  # quick: a sixth of the two-row templates
                if not q and nr == 3 and (kinds[0] + 2 * kinds[1] + 3 * kinds[2] + sum(depths)) % 11 != 0:
                    continue
                p = {"rows": nr, "alpha": 1, "first": (sum(kinds) + sum(depths)) % 4 if nr < 3 else 0}
                for r in range(nr):
                    p["r%dd" % r] = depths[r]
                    p["r%dk" % r] = kinds[r]
                    p["r%dtn" % r] = 1 + (r + kinds[r]) % 2
                    p["r%dxn" % r] = (depths[r] + kinds[r]) % 3
                jobs.append(dict(base, harness="VerifC04ParseResolveRows", params=p))
    # schema.New: rows at the import level
    for nr in (1, 2):
        for kinds in itertools.product(range(8), repeat=nr):
            if nr == 2 and q and (kinds[0] * 3 + kinds[1]) % 4:
                continue
            p = {"rows": nr, "alpha": 1, "sys": 1 if sum(kinds) % 2 else 3, "vattr": sum(kinds) % 3 == 0}
            p["vattr"] = 1 if p["vattr"] else 0
            for r in range(nr):
                p["i%dk" % r] = kinds[r]
                p["i%dtn" % r] = 1 + (r + kinds[r]) % 2
                p["i%dxn" % r] = 1 + (kinds[r] + r) % 2
            jobs.append(dict(base, harness="VerifC04SchemaNewRows", params=p))
    return jobs


def jobs_texts(tier):
    q = tier == "quick"
    base = dict(BASE, timeout_s=600 if q else 3000)
    dj, vj = [], []
    for n in range(0, (3 if q else 5) + 1):
        dj.append(dict(base, harness="VerifC04DepParse", params={"n": n}))
        vj.append(dict(base, harness="VerifC04AttrParse", params={"n": n}))
    for key in range(6):
        for n in range(0, (3 if q else 5) + 1):
            dj.append(dict(base, harness="VerifC04DepParseKeyed", params={"key": key, "n": n}))
            vj.append(dict(base, harness="VerifC04AttrParseKeyed", params={"key": key, "n": n}))
    return dj, vj


def jobs_resolve(tier):
    q = tier == "quick"
    base = dict(BASE, timeout_s=600 if q else 3000)
    jobs = []
    for excl in range(-1, (4 if q else 6) + 1):
        for flags in range(4):
            jobs.append(dict(base, harness="VerifC04MavenDepType",
                             params={"excl": excl, "opt": flags & 1, "test": flags >> 1, "scope": (excl + flags) % 2, "origin": (excl + flags) % 3 % 2}))
    return jobs


def jobs_maven(tier):
    q = tier == "quick"
    base = dict(BASE, timeout_s=600 if q else 3000, unwind=120,
                summarise=["deps.dev/util/semver.compare"])
    jobs = []
    for n in range(0, (2 if q else 4) + 1):
        for m in range(0, (2 if q else 3) + 1):
            jobs.append(dict(base, harness="VerifC04ProfileActivation", params={"n": n, "m": m, "os": (n + m) % 2, "prop": (n + m + 1) % 2}))
    for n in range(0, (3 if q else 5) + 1):
        jobs.append(dict(base, harness="VerifC04ProjectKey", params={"n": n}))
    for n in range(0, (2 if q else 3) + 1):
        jobs.append(dict(base, harness="VerifC04ProjectPipeline", params={"n": n}))
    return jobs


def jobs_resolvers(tier):
    q = tier == "quick"
    base = dict(BASE, timeout_s=600 if q else 3000, unwind=200, max_steps=20_000_000, max_depth=200,
                summarise=["deps.dev/util/semver.compare"])
    out = {}
    for pkg in ("rnpm", "rmaven", "rpypi"):
        jobs = [dict(base, harness="VerifC04ResolveRequirement", params={"n": n, "marker": -1}) for n in range(0, (3 if q else 4) + 1)]
        if pkg == "rpypi":
            jobs += [dict(base, harness="VerifC04ResolveRequirement", params={"n": 0, "marker": m}) for m in range(0, (3 if q else 5) + 1)]
        out[pkg] = jobs
    return out


def run(tier):
    dj, vj = jobs_texts(tier)
    rj = jobs_resolvers(tier)
    groups = [Group("semver", jobs_semver(tier)), Group("pypi", jobs_pypi(tier)), Group("rpypi", jobs_rpypi(tier) + rj["rpypi"]),
              Group("rnpm", rj["rnpm"], files=["c04resolve.go"]), Group("rmaven", rj["rmaven"], files=["c04resolve.go"]),
              Group("schema", jobs_schema(tier)), Group("deptest", dj), Group("versiontest", vj),
              Group("resolve", jobs_resolve(tier)), Group("maven", jobs_maven(tier))]
    return run_property("C04", tier, groups, required_covers=["accepted", "rejected", "canon computed"],
                        assumptions=["inputs are byte strings of the stated lengths, all 256 byte values"],
                        bounds={"semver": "see jobs table: n = string length"})
