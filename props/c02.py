"""C02 — version ordering agrees with each ecosystem's own implementation (transcribed references)."""
import itertools
from vlib.runner import Group, run_property
from props.c01 import shapes, shape_params

SUM = ["deps.dev/util/semver.compare"]


def run(tier):
    base = dict(unwind=60, timeout_s=600 if tier == "quick" else 3000, summarise=SUM, max_witnesses=1, witness_every=1000, panic_is_violation=True)
    jobs = []
    q = tier == "quick"
    shp = [s for s in shapes(3, 2, 2) if s[0] == 3] if q else shapes(3, 2, 3)
    if not q:
        shp = [s for s in shp if s[0] in (1, 3)]
    for sys in (1, 2, 4, 5):  # Cargo, Go, NPM, NuGet
        for sa, sb in itertools.product(shp, repeat=2):
            p = {"sys": sys}
            p.update(shape_params("a", sa))
            p.update(shape_params("b", sb))
            jobs.append(dict(base, harness="VerifC02Semver", params=p))
    # PyPI: field combinations
    def py(tag, nrel, pre, post, dev, local, epoch=0, v=0, spell=0):
        return {tag + "nrel": nrel, tag + "pre": pre, tag + "post": post, tag + "dev": dev, tag + "local": local,
                tag + "epoch": epoch, tag + "v": v, tag + "prespell": spell}
    if q:
        forms = [(2, 0, 0, 0, 0), (2, 1, 0, 0, 0), (3, 3, 0, 0, 0), (2, 0, 1, 0, 0), (2, 0, 0, 1, 0), (2, 2, 0, 1, 0), (2, 0, 2, 1, 0), (1, 0, 0, 0, 1), (2, 0, 0, 0, 2), (2, 1, 1, 0, 0), (2, 0, 1, 0, 1), (4, 0, 0, 0, 0), (4, 3, 1, 0, 0)]
    else:
        forms = [(n, pre, post, dev, loc) for n in (1, 2, 3, 4) for pre in (0, 1, 2, 3) for post in (0, 1, 2, 3) for dev in (0, 1, 2) for loc in (0, 1, 2)]
        forms = forms[::3]
    if q:
        forms += [(2, 0, 0, 0, 3), (2, 0, 0, 0, 4), (1, 0, 0, 0, 3)]
    else:
        forms += [(n, 0, 0, 0, loc) for n in (1, 2) for loc in (3, 4)] + [(2, 1, 0, 0, 3), (2, 0, 1, 0, 4)]
    for fa, fb in itertools.product(forms, repeat=2):
        for spell in ([0, 1] if q else [0, 1, 2, 3]):
            p = {}
            p.update(py("a", *fa, epoch=spell % 2, v=spell // 2 % 2, spell=spell))
            p.update(py("b", *fb, epoch=0, v=0, spell=spell + 1))
            jobs.append(dict(base, harness="VerifC02PyPI", params=p))
    # Maven: pairs of templates of the C02 domain against the ComparableVersion transcription
    # templates 5, 9, 12 (a qualifier or number joined by '.' after a qualifier) are left out: Maven 3.6 and 3.8.7 order them differently
    mts = [1, 4, 6, 7, 10, 14, 15, 21, 24] if q else [t for t in range(26) if t not in (5, 9, 12)]
    for ta, tb in itertools.product(mts, repeat=2):
        jobs.append(dict(base, harness="VerifC02Maven", params={"ta": ta, "tb": tb}))
    # RubyGems: pairs of templates against the Gem::Version transcription
    gts = [1, 2, 6, 7, 8, 9, 13, 16] if q else list(range(21))
    for ta, tb in itertools.product(gts, repeat=2):
        jobs.append(dict(base, harness="VerifC02RubyGems", params={"ta": ta, "tb": tb}))
    # long all-digit prerelease identifiers (npm, Cargo, Go)
    for sys in (1, 2, 4):
        for ia, ib in itertools.product(range(8), repeat=2):
            if q and (ia + ib + sys) % 2:
                continue
            jobs.append(dict(base, harness="VerifC02LongNumeric", params={"sys": sys, "ia": ia, "ib": ib}))
    return run_property("C02", tier, [Group("semver", jobs)],
                        required_covers=["reference says less", "reference says equal", "a ten-digit numeric identifier"],
                        assumptions=["oracles are transcriptions of SemVer 2.0 §11 (npm, Cargo, Go), NuGet SemVer2 and packaging's _cmpkey (PyPI) over template fields; the real tools are not run",
                                     "Maven: a transcription of ComparableVersion.parseVersion/compareTo (3.6.x-3.8.6 algorithm) on the version text, over template pairs of the property's Maven domain; templates with a qualifier or number joined by '.' after the numeric prefix are left out because Maven 3.6 and 3.8.7 order them differently; counterexamples were adjudicated with the maven-artifact 3.8.7 jar on this image",
                                     "RubyGems: a transcription of the published Gem::Version#<=> (segments, canonical segments, string < number) on the version text over template pairs; no Ruby on this image to adjudicate"],
                        bounds={"semver": "3 components, <=2 prerelease identifiers of <=%d bytes" % (2 if q else 3), "pypi": "release <=4 single-digit components, single-digit numbers, one local segment"})
