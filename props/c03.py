"""C03 — constraint matching agrees with each ecosystem's own implementation (transcribed references)."""
import itertools
from vlib.runner import Group, run_property

SUM = ["deps.dev/util/semver.compare", "(*deps.dev/util/semver.Constraint).Match", "deps.dev/util/semver.canon$1"]


def comparators(q):
    out = []
    for op in range(9):
        for n in (0, 1, 2, 3):
            for pre in (0, 1):
                if pre and n != 3:
                    continue
                if n == 0 and op not in (0, 2, 3, 4):
                    continue
                for x in ((0, 1) if n in (1, 2) and op in (0, 1, 6, 7) else (0,)):
                    out.append({"op": op, "n": n, "pre": pre, "x": x})
    return out


def pref(tag, d):
    return {tag + k: v for k, v in d.items()}


def run(tier):
    q = tier == "quick"
    base = dict(unwind=80, timeout_s=600 if q else 3000, summarise=SUM, max_witnesses=1, witness_every=1000, panic_is_violation=True)
    jobs = []
    comps = comparators(q)
    for c in comps:
        for vpre in (0, 1):
            p = {"shape": 0, "vpre": vpre}
            p.update(pref("a", c))
            jobs.append(dict(base, harness="VerifC03Npm", params=p))
    pairs = list(itertools.product(comps, repeat=2))
    step = 41 if q else 5
    for shape in (1, 2):
        for i, (a, b) in enumerate(pairs):
            if (i + shape) % step:
                continue
            for vpre in (0, 1):
                p = {"shape": shape, "vpre": vpre}
                p.update(pref("a", a))
                p.update(pref("b", b))
                jobs.append(dict(base, harness="VerifC03Npm", params=p))
    for an, apre, bn, bpre in [(3, 0, 3, 0), (3, 1, 3, 0), (2, 0, 2, 0), (1, 0, 2, 0), (3, 0, 1, 0), (3, 0, 3, 1)]:
        for vpre in (0, 1):
            jobs.append(dict(base, harness="VerifC03Npm", params={"shape": 3, "vpre": vpre, "an": an, "apre": apre, "bn": bn, "bpre": bpre}))
    # Cargo: single comparators and comma pairs
    ccomps = [{"op": op, "n": n, "pre": pre, "x": x} for op in range(8) for n in (1, 2, 3) for pre in (0, 1) for x in (0, 1)
              if not (pre and n < 3) and not (x and (n == 3 or op not in (0, 1)))]
    for c in ccomps:
        for vpre in (0, 1):
            p = {"shape": 0, "vpre": vpre}
            p.update(pref("a", c))
            jobs.append(dict(base, harness="VerifC03Cargo", params=p))
    cpairs = list(itertools.product(ccomps, repeat=2))
    for i, (a, b) in enumerate(cpairs):
        if i % (37 if q else 5):
            continue
        for vpre in (0, 1):
            p = {"shape": 1, "vpre": vpre}
            p.update(pref("a", a))
            p.update(pref("b", b))
            jobs.append(dict(base, harness="VerifC03Cargo", params=p))
    # PyPI
    for op in range(9):
        for n in (1, 2, 3):
            for vn in ((2, 3) if q else (1, 2, 3)):
                jobs.append(dict(base, harness="VerifC03PyPI", params={"two": 0, "aop": op, "an": n, "vn": vn}))
    for (o1, o2) in ([(3, 4), (3, 1), (6, 1), (0, 5), (7, 2), (1, 1), (8, 8), (1, 8), (8, 1), (4, 5)] if q else list(itertools.product(range(9), repeat=2))[::2]):
        for n in (2, 3):
            jobs.append(dict(base, harness="VerifC03PyPI", params={"two": 1, "aop": o1, "an": n, "bop": o2, "bn": 2, "vn": 2}))
    # Maven
    for k in range(9):
        for n in (1, 2):
            jobs.append(dict(base, harness="VerifC03Maven", params={"shape": 0, "ak": k, "an": n, "vn": 2}))
    for k1, k2 in ([(0, 4), (2, 6), (5, 8), (6, 6)] if q else list(itertools.product(range(9), repeat=2))[::3]):
        jobs.append(dict(base, harness="VerifC03Maven", params={"shape": 1, "ak": k1, "an": 2, "bk": k2, "bn": 2, "vn": 2}))
    jobs.append(dict(base, harness="VerifC03Maven", params={"shape": 2, "an": 2, "vn": 2}))
    return run_property("C03", tier, [Group("semver", jobs)],
                        required_covers=["requirement parsed", "reference matches", "reference rejects"],
                        assumptions=["oracles are transcriptions: node-semver 7 desugaring + prerelease admission rule (npm), PEP 440 specifier clauses on final releases (PyPI), Maven VersionRange; the real tools are not run",
                                     "Cargo: the semver crate's VersionReq (comma = AND, bare version = caret, partial versions as ranges, .* wildcards, the prerelease admission rule) through the same primitive-bound desugaring; numbers are single digits; prerelease tags are single letters"],
                        bounds={"digits_per_number": 1, "comparators_per_requirement": 2})
