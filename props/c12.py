"""C12 — requirement matching over a version list is exact, ordered and order-insensitive."""
import itertools
from vlib.runner import Group, run_property

SUM = ["deps.dev/util/semver.compare", "(deps.dev/util/resolve/internal/attr.Set).Compare",
       "(*deps.dev/util/semver.Constraint).Match", "(deps.dev/util/semver.System).Compare"]
NPM, MAVEN, PYPI = 3, 6, 7
NREQ = {NPM: 9, MAVEN: 5, PYPI: 6}


def run(tier):
    jobs = []
    base = dict(unwind=120, timeout_s=600 if tier == "quick" else 3000, summarise=SUM, max_witnesses=1, witness_every=1000,
                panic_is_violation=True)
    for sys in (NPM, MAVEN, PYPI):
        vts = [0, 1, 5, 6] if sys == NPM else [0, 1]
        if tier != "quick":
            vts = [0, 1, 2, 3, 4, 5, 6] if sys == NPM else [0, 1, 2, 4]
        ks = [2, 3] if tier == "quick" else [2, 3, 4]
        if tier == "quick" and sys != NPM:
            ks = [2]
        rts = range(NREQ[sys]) if tier != "quick" else {NPM: [0, 3, 5, 7], MAVEN: [0, 1, 3], PYPI: [0, 2, 4]}[sys]
        for k in ks:
            combos = list(itertools.combinations_with_replacement(vts, k))
            if tier == "quick":
                combos = combos[::2] if k == 2 else combos[::5]
            for vt in combos:
                for rt in rts:
                    for latest in ([-1, 0, k - 1] if sys == NPM else [-1]):
                        p = {"sys": sys, "k": k, "rt": rt, "latest": latest, "next": 1 if latest != 1 else -1, "rot": 1, "rev": 1}
                        for i, t in enumerate(vt):
                            p["vt%d" % i] = t
                        jobs.append(dict(base, harness="VerifC12Match", params=p))
    return run_property("C12", tier, [Group("resolve", jobs)], required_covers=["some version matched", "some version rejected"],
                        assumptions=["version and requirement strings are template instances with symbolic digits/letters; list order: rotation+reversal"],
                        bounds={"list_len": max(ks)})
