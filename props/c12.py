"""C12 — requirement matching over a version list is exact, ordered and order-insensitive."""
import itertools
from vlib.runner import Group, run_property

SUM = ["deps.dev/util/semver.compare", "(deps.dev/util/resolve/internal/attr.Set).Compare",
       "(*deps.dev/util/semver.Constraint).Match", "(deps.dev/util/semver.System).Compare"]
NPM, MAVEN, PYPI = 3, 6, 7
NREQ = {NPM: 12, MAVEN: 7, PYPI: 6}


def run(tier):
    jobs = []
    base = dict(unwind=120, timeout_s=600 if tier == "quick" else 3000, summarise=SUM, max_witnesses=1, witness_every=1000,
                panic_is_violation=True)
    for sys in (NPM, MAVEN, PYPI):
        vts = [0, 1, 5, 6, 7] if sys == NPM else ([0, 1, 4] if sys == MAVEN else [0, 1, 2])  # 4, 2: other spellings of a version (1.0.0-0, 1.0)
        if tier != "quick":
            vts = [0, 1, 2, 3, 4, 5, 6, 7] if sys == NPM else [0, 1, 2, 4]
        ks = [2, 3] if tier == "quick" else [2, 3, 4]
        if tier == "quick" and sys != NPM:
            ks = [2]
        rts = range(NREQ[sys]) if tier != "quick" else {NPM: [0, 3, 5, 9, 11], MAVEN: [0, 1, 3], PYPI: [0, 2, 4]}[sys]
        def add(k, vt, rt, latest, sortcheck):
            # the second list is a non-trivial permutation of the first: a swap for two elements,
            # rotation and reversal (which swaps the first two) for more
            p = {"sys": sys, "k": k, "rt": rt, "latest": latest, "sortcheck": sortcheck,
                 "next": 1 if latest != 1 else -1, "rot": 1, "rev": 0 if k == 2 else 1}
            for i, t in enumerate(vt):
                p["vt%d" % i] = t
            jobs.append(dict(base, harness="VerifC12Match", params=p))

        for k in ks:
            combos = list(itertools.combinations_with_replacement(vts, k))
            krts = list(rts)
            if tier == "quick" and k == 3:
                combos = combos[::3]
                krts = [r for r in krts if r != 9][:3]  # the two-comparator template is run on its own family below
            if sys == MAVEN and tier == "quick":
                # the other spelling of a version (template 4) once, next to a plain version
                combos = [c for c in combos if 4 not in c or c == (0, 4)]
            for vt in combos:
                for rt in krts:
                    for latest in ([-1, 0, k - 1] if sys == NPM else [-1]):
                        add(k, vt, rt, latest, 1 if rt == krts[0] else 0)
        if sys == MAVEN:
            # a union of ranges needs a matching version on both sides of a listed version in the gap
            for rt in (5, 6):
                add(3, (8, 8, 8), rt, -1, 0)
        if sys == NPM and tier == "quick":
            # a range that can select prereleases only, over lists with two prereleases and a release
            for vt, latest in [((0, 1, 1), 1), ((0, 1, 1), 2), ((1, 0, 1), 0)]:
                add(3, vt, 9, latest, 0)
    # the client: answers before and after a version is added again with other attributes
    for sys in (NPM, MAVEN, PYPI):
        rts = {NPM: [0, 1, 3, 4], MAVEN: [2], PYPI: [0, 5]}[sys] if tier == "quick" else range(NREQ[sys])
        for k in (([2, 3] if sys == NPM else [2]) if tier == "quick" else [2, 3, 4]):
            for rt in rts:
                for latest in ([-1, 0, k - 1] if sys == NPM else [-1]):
                    for move in (range(k) if tier != "quick" else [0, k - 1]):
                        p = {"sys": sys, "k": k, "rt": rt, "latest": latest, "move": move}
                        for i in range(k):
                            p["vt%d" % i] = (i + rt) % 2 if tier == "quick" else (i * 3 + rt + move) % 2
                        jobs.append(dict(base, harness="VerifC12ClientMatch", params=p))
    return run_property("C12", tier, [Group("resolve", jobs)], required_covers=["some version matched", "some version rejected", "the client matched some version", "a version added again with other attributes"],
                        assumptions=["version and requirement strings are template instances with symbolic digits/letters; list order: rotation+reversal", "LocalClient.MatchingVersions: parsable versions added in reverse order, asked twice, one version added again with other attributes (the latest tag moves, or a Blocked flag), asked again; each answer is compared with MatchRequirement over the list held at that moment, attributes included"],
                        bounds={"list_len": max(ks)})
