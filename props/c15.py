"""C15 — effective POM (partial: interpolation termination/placeholder clause and property precedence lemmas)."""
from vlib.runner import Group, run_property


def run(tier):
    base = dict(unwind=60, timeout_s=600 if tier == "quick" else 3000, max_witnesses=2, witness_every=200, panic_is_violation=True,
                unwind_is_violation=True, max_depth=40)
    jobs = []
    q = tier == "quick"
    for keys in ([1, 2] if q else [0, 1, 2, 3]):
        for vseg in ([1, 2] if q else [1, 2]):
            for sseg in ([1, 2] if q else [1, 2, 3]):
                vpats = range(0, 4 ** keys) if not q else [p for p in range(0, 4 ** keys) if p % 3 != 1]
                for vpat in vpats:
                    # every value pattern must fit vseg bits per key
                    if any(((vpat >> (2 * k)) & 3) >= (1 << vseg) for k in range(keys)):
                        continue
                    for spat in range(1, 1 << sseg):
                        jobs.append(dict(base, harness="VerifC15Interpolate",
                                         params={"keys": keys, "vseg": vseg, "sseg": sseg, "vpat": vpat, "spat": spat}))
    for n in range(0, (4 if q else 6) + 1):
        for vn in ([0, 4] if q else [0, 4, 5]):
            jobs.append(dict(base, harness="VerifC15ArbitraryBytes", params={"n": n, "vn": vn}))
    jobs.append(dict(base, harness="VerifC15PropertyPrecedence", params={}))
    for name in range(10):
        for where in (0, 1):
            jobs.append(dict(base, harness="VerifC15BuiltinNames", params={"name": name, "where": where}))
    for bits in range(16):
        jobs.append(dict(base, harness="VerifC15FillIn", params={"ver": bits & 1, "scope": (bits >> 1) & 1, "excl": (bits >> 2) & 1, "where": (bits >> 3) & 1}))
    for bits in range(16):
        jobs.append(dict(base, harness="VerifC15ImportOrder", params={"own": bits & 1, "a": (bits >> 1) & 1, "n": (bits >> 2) & 1, "b": (bits >> 3) & 1}))
    import itertools
    fams, names = range(7), range(6)
    for f0, n0, f1, d0, d1 in itertools.product(fams, names, [0, 1, 3, 4], (0, 1), (0, 1)):
        if q and (f0 * 5 + n0 * 3 + f1 + d0 + d1) % 3:
            continue
        jobs.append(dict(base, harness="VerifC15Profiles", params={"p0f": f0, "p0n": n0, "p0a": (f0 + n0) % 3, "p0d": d0, "p1f": f1, "p1n": 0, "p1a": 0, "p1d": d1}))
    for n in (3, 4, 5):
        for k in range(1, n + 1):
            for d in (0, 1, 2):
                if d > k:
                    continue
                jobs.append(dict(base, harness="VerifC15JDKProfile", params={"n": n, "k": k, "d": d}))
    return run_property("C15", tier, [Group("maven", jobs)],
                        required_covers=["fully resolved", "left unresolved", "resolved", "unresolved", "same key in child and parent", "explicit property named like a prefixed built-in", "nested import against a later import", "a fully specified dependency still takes managed exclusions", "a profile activated by its OS criteria", "default profiles used because no profile is active", "a default profile left out because another profile is active", "a jdk value that is a prefix of the JDK version", "a jdk value that differs in its major or minor component"],
                        assumptions=["only the termination / placeholder clause and precedence lemmas are decided (property tables: child over parent, explicit over un-prefixed built-ins, prefixed built-ins over explicit; dependencyManagement imports depth-first in declaration order, first declaration wins; management fills in exactly the empty ones of version, scope and exclusions; profiles: OS criteria family/name/arch not case sensitive with ! negation, all stated criteria must allow the fixed OS, default profiles only when none is active, active profiles' dependencies after the project's and their properties over it; a plain jdk value activates when it is a dotted prefix of the JDK version of 3-5 components and not when it differs in the first or second component, digit-prefix cases like 1 vs 11 left out); equality with Maven's own model builder is outside this technique"],
                        bounds={"keys": 3, "segments": 2 if q else 3, "arbitrary_subject_len": 5 if q else 7})
