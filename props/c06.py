"""C06 — an npm resolution graph is a valid installation (graph clauses; skeleton universes with symbolic version numbers)."""
import random
from vlib.runner import Group, run_property

SUM = ["deps.dev/util/semver.compare", "(deps.dev/util/resolve/internal/attr.Set).Compare", "(*deps.dev/util/semver.Constraint).Match",
       "(deps.dev/util/semver.System).Compare", "(deps.dev/util/resolve.PackageKey).Compare"]
NOPS = 10


def skeleton(rnd, rich):
    p = {}
    targets = [1, 2, 3]
    rnd.shuffle(targets)  # one requirement per package: later sections of a package.json override earlier ones
    for s in range(3):
        t = targets[s] if (s == 0 or rnd.random() < 0.75) else 0
        p["r%dt" % s] = t
        p["r%dr" % s] = rnd.randrange(NOPS)
        p["r%dk" % s] = rnd.choice([0, 0, 0, 1, 2, 3])
    for pi in range(3):
        nv = rnd.choice([1, 2, 3] if rich else [1, 2])
        p["nv%d" % pi] = nv
        p["latest%d" % pi] = rnd.choice([-1] + list(range(nv)))
        p["next%d" % pi] = rnd.choice([-1, -1] + list(range(nv)))
        p["blocked%d" % pi] = rnd.choice([-1, -1] + list(range(nv)))
        p["pre%d" % pi] = rnd.choice([-1, -1] + list(range(nv)))
        for vi in range(3):
            p["p%d%dt" % (pi, vi)] = rnd.choice([0, 0, 1, 2, 3])
            p["p%d%dr" % (pi, vi)] = rnd.randrange(NOPS)
            p["p%d%dk" % (pi, vi)] = rnd.choice([0, 0, 0, 1, 3])
    return p


def run(tier):
    base = dict(unwind=400, timeout_s=300 if tier == "quick" else 1200, summarise=SUM, max_witnesses=1, witness_every=50, panic_is_violation=True,
                max_steps=50_000_000, max_depth=200)
    rnd = random.Random(20261001)  # fixed: the same skeletons on every run
    n = 60 if tier == "quick" else 600
    jobs = [dict(base, harness="VerifC06Resolve", params=skeleton(rnd, tier != "quick")) for _ in range(n)]
    return run_property("C06", tier, [Group("rnpm", jobs)],
                        required_covers=["resolved", "a graph with several nodes", "fresh install checked"],
                        assumptions=["universe skeletons (3 packages + root, <=3 versions, one requirement slot per version, three for the root) are a fixed pseudo-random sample; version majors and the digits in requirements are symbolic in 1..4",
                                     "the two install-tree clauses (one package of a name per directory, Node's lookup) are not decided: the install tree is not observable without a hook and none was added",
                                     "aliases and bundled (derived) packages are not generated; a version places at most one requirement on a package"],
                        bounds={"skeletons": n, "packages": 3, "versions_per_package": 3, "digits": "1-4"})
