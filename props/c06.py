"""C06 — an npm resolution graph is a valid installation (graph clauses and, through the verif hook, the install-tree clauses; skeleton universes with symbolic version numbers)."""
import random
from vlib.runner import Group, run_property

SUM = ["deps.dev/util/semver.compare", "(deps.dev/util/resolve/internal/attr.Set).Compare", "(*deps.dev/util/semver.Constraint).Match",
       "(deps.dev/util/semver.System).Compare", "(deps.dev/util/resolve.PackageKey).Compare"]
NOPS = 10
NOPS2 = 18
OPS2 = ["*", "D.0.0", "^D.0.0", ">=D.0.0", "D.x", "latest", "<D.0.0", "~D.0.0", "^D.0.0-rc", "next", ">=D.0.0-rc", "D.1.0", "<=D.1.0",
        "D.0.0 || D.0.0", ">D.0.0", "D.0.x", "~D.1.0", "D.0.0 - D.1.0"]  # = harness c06Ops2
# operator indices (harness c06Ops2) grouped by how likely they are to force a second copy of a package
EXACT = [1, 11, 13, 15]
WIDE = [0, 2, 3, 4, 5, 6, 7, 8, 9, 10, 12, 14, 16, 17]


def skeleton(rnd, rich):
    p = {}
    targets = [1, 2, 3]
    rnd.shuffle(targets)  # one requirement per package: later sections of a package.json override earlier ones
    for s in range(3):
        t = targets[s] if (s == 0 or rnd.random() < 0.75) else 0
        p["r%dt" % s] = t
        p["r%dr" % s] = rnd.randrange(NOPS)
        p["r%dk" % s] = rnd.choice([0, 0, 0, 1, 2, 3])
    for pi in range(3):
        nv = rnd.choice([1, 2, 3] if rich else [1, 2])
        p["nv%d" % pi] = nv
        p["latest%d" % pi] = rnd.choice([-1] + list(range(nv)))
        p["next%d" % pi] = rnd.choice([-1, -1] + list(range(nv)))
        p["blocked%d" % pi] = rnd.choice([-1, -1] + list(range(nv)))
        p["pre%d" % pi] = rnd.choice([-1, -1] + list(range(nv)))
        for vi in range(3):
            p["p%d%dt" % (pi, vi)] = rnd.choice([0, 0, 1, 2, 3])
            p["p%d%dr" % (pi, vi)] = rnd.randrange(NOPS)
            p["p%d%dk" % (pi, vi)] = rnd.choice([0, 0, 0, 1, 3])
    return p


def _slot(p, tag, rnd, t, conflict, alias_p, kinds):
    p[tag + "t"] = t
    p[tag + "r"] = rnd.choice(EXACT) if rnd.random() < conflict else rnd.choice(WIDE)
    p[tag + "k"] = rnd.choice(kinds)
    p[tag + "a"] = rnd.choice([1, 1, 2, 3]) if (t and rnd.random() < alias_p) else 0


def _fix_names(p, tags):
    """A package.json section is a map: the names under which one version's dependencies are installed (the alias
    if there is one, else the package name) are pairwise distinct, except for the deliberate same-package pairs."""
    names = ["", "x", "y", "b"]
    pk = ["", "a", "b", "c", "d"]
    seen = set()
    for tag in tags:
        if not p[tag + "t"]:
            continue
        n = names[p[tag + "a"]] or pk[p[tag + "t"]]
        if n in seen and p[tag + "a"]:
            p[tag + "a"] = 0
            n = pk[p[tag + "t"]]
        seen.add(n)
    # an alias equal to the name of a package that the same version also requires under its own name
    plain = {pk[p[tag + "t"]] for tag in tags if p[tag + "t"] and not p[tag + "a"]}
    for tag in tags:
        if p[tag + "t"] and p[tag + "a"] and names[p[tag + "a"]] in plain:
            p[tag + "a"] = 0


# pairs (kind of the first slot, kind of the second) that package.json merging gives a defined meaning when both
# slots of one version name the same package
SAME_PKG = [(0, 5), (0, 2), (0, 3), (1, 0), (4, 0), (0, 1), (2, 0), (5, 0), (4, 1)]


def skeleton2(rnd, np=None, conflict=0.55, alias_p=0.0, dup_p=0.12, symbolic=5, bundle_p=0.0):
    """Second-generation skeleton: np packages, two slots per version, four on the root."""
    np = np or rnd.choice([3, 3, 4])
    p = {"np": np}
    kinds = [0, 0, 0, 0, 1, 2, 3, 4, 5]
    targets = list(range(1, np + 1))
    rnd.shuffle(targets)
    for s in range(4):
        t = targets[s] if s < np and (s < 2 or rnd.random() < 0.7) else 0
        _slot(p, "r%d" % s, rnd, t, conflict, alias_p, [0, 0, 0, 0, 1, 4])
    _fix_names(p, ["r%d" % s for s in range(4)])
    for pi in range(4):
        nv = rnd.choice([1, 2, 2, 3])
        p["nv%d" % pi] = nv
        p["latest%d" % pi] = rnd.choice([-1] + list(range(nv)))
        p["next%d" % pi] = rnd.choice([-1, -1, -1] + list(range(nv)))
        used = set()
        for vi in range(3):
            tag = "%d%d" % (pi, vi)
            while True:
                key = (rnd.choice([1, 2, 2, 3]), rnd.choice([0, 0, 1]), rnd.choice([0, 0, 0, 1]))
                if key not in used:
                    used.add(key)
                    break
            p["mj" + tag], p["mi" + tag], p["pr" + tag] = key
            p["bl" + tag] = rnd.choice([0, 0, 1])
            others = [t for t in range(1, np + 1) if t != pi + 1]  # a package does not depend on itself
            t0 = rnd.choice([0] + others + others)
            _slot(p, "p%ss0" % tag, rnd, t0, conflict, alias_p, kinds)
            if t0 and rnd.random() < dup_p:
                k0, k1 = rnd.choice(SAME_PKG)
                p["p%ss0k" % tag] = k0
                _slot(p, "p%ss1" % tag, rnd, t0, conflict, 0.0, [k1])
                p["p%ss0a" % tag] = 0
            else:
                t1 = rnd.choice([0, 0] + [t for t in others if t != t0])
                _slot(p, "p%ss1" % tag, rnd, t1, conflict, alias_p, kinds)
                _fix_names(p, ["p%ss0" % tag, "p%ss1" % tag])
    # bundled (derived) packages: a version brings along a copy of the package its first requirement names
    p["anybundle"] = 0
    for pi in range(4):
        for vi in range(3):
            tag = "%d%d" % (pi, vi)
            p["bn" + tag] = 0
            p.update({"b%st" % tag: 0, "b%sr" % tag: 0, "b%sk" % tag: 0, "b%sa" % tag: 0})
            if pi < np and vi < p["nv%d" % pi] and p["p%ss0t" % tag] and not p["p%ss0a" % tag] and rnd.random() < bundle_p:
                p["bn" + tag] = rnd.choice([1, 2, 3])
                p["p%ss0k" % tag] = 4          # declared in bundleDependencies
                p["anybundle"] = 1
                if rnd.random() < 0.5:          # the bundled copy has a requirement of its own
                    others = [t for t in range(1, np + 1) if t not in (pi + 1, p["p%ss0t" % tag])]
                    if others:
                        _slot(p, "b%s" % tag, rnd, rnd.choice(others), conflict, 0.0, [0, 0, 1])
    # Symbolic digits: the requirements of the root and of the first versions listed keep symbolic digits until
    # `symbolic` of them are in play; every later requirement gets a concrete digit (each symbolic digit can
    # triple the number of paths).
    ops = OPS2
    left = symbolic
    tags = ["r%d" % s for s in range(4)] + ["p%d%ds%d" % (pi, vi, s) for vi in range(3) for pi in range(np) for s in range(2)]
    tags += ["b%d%d" % (pi, vi) for vi in range(3) for pi in range(4)]
    for tag in tags:
        nd = ops[p[tag + "r"]].count("D") if p[tag + "t"] else 0
        if nd and left >= 1:
            p[tag + "c"] = 0
            left -= 1
        else:
            p[tag + "c"] = rnd.choice([1, 2, 3])
    for tag in ["p%d%ds%d" % (pi, vi, s) for vi in range(3) for pi in range(np, 4) for s in range(2)]:
        p[tag + "c"] = 1
    return p


def directed_alias(rnd):
    """Directed family: a package installed under an alias that is the name of a real package (b), reused from below
    through the alias, and a nested package that requires the real b: the slot reserved through the alias must stay
    free. Roles are permuted over a, c, d; decorations are random."""
    p = skeleton2(rnd, np=4)
    for k in list(p):
        if k.endswith("t") and (k.startswith("p") or k.startswith("r")):
            p[k] = 0
    X, E, Z = rnd.sample([1, 3, 4], 3)
    B = 2

    def put(tag, t, digit, alias=0, op=1, kind=0):
        p.update({tag + "t": t, tag + "r": op, tag + "k": kind, tag + "a": alias, tag + "c": digit})
    slots = [(E, 1, 3), (X, 1, 0), (Z, 1, 0)]
    rnd.shuffle(slots)
    for i, (t, dgt, al) in enumerate(slots):
        put("r%d" % i, t, dgt, al, op=rnd.choice([1, 1, 2]) if t != Z else 1)
    # versions: X 1.0.0; E 1.0.0; Z 1.0.0 and 2.0.0; B 3.0.0 (and maybe 1.0.0)
    def ver(pi, vi, major):
        tag = "%d%d" % (pi - 1, vi)
        p.update({"mj" + tag: major, "mi" + tag: 0, "pr" + tag: 0, "bl" + tag: 0})
        return tag
    for pk, majors in ((X, [1]), (E, [1]), (Z, [1, 2]), (B, [3] if rnd.random() < 0.5 else [1, 3])):
        p["nv%d" % (pk - 1)] = len(majors)
        p["latest%d" % (pk - 1)] = -1
        p["next%d" % (pk - 1)] = -1
        for vi, mj in enumerate(majors):
            ver(pk, vi, mj)
    tx = "%d0" % (X - 1)
    put("p%ss0" % tx, E, 0, 3)           # X requires E under the alias b (symbolic digit)
    put("p%ss1" % tx, Z, 2)              # and Z@2, which must nest under X
    tz = "%d1" % (Z - 1)
    put("p%ss0" % tz, B, 0, 0, op=rnd.choice([1, 2, 3]))   # the nested Z requires the real b (symbolic digit)
    return p


def directed_star_shadow(rnd):
    """Directed family: a `*` requirement reused from a copy higher in the tree, and below the star-dependent a
    nested package that needs another version of the same package: the second copy must not be hoisted onto the
    lookup path of the reuse. Roles are permuted; some digits stay symbolic."""
    np = rnd.choice([3, 4])
    p = skeleton2(rnd, np=np)
    for k in list(p):
        if k.endswith("t") and (k.startswith("p") or k.startswith("r") or k.startswith("b")):
            p[k] = 0
    roles = rnd.sample(list(range(1, np + 1)), np)
    A, D, X = roles[:3]
    Z = roles[3] if np == 4 else 0

    def put(tag, t, digit, op=1, kind=0):
        p.update({tag + "t": t, tag + "r": op, tag + "k": kind, tag + "a": 0, tag + "c": digit})

    def ver(pk, vi, major):
        tag = "%d%d" % (pk - 1, vi)
        p.update({"mj" + tag: major, "mi" + tag: 0, "pr" + tag: 0, "bl" + tag: 0})
        return tag
    for pk in roles:
        p["latest%d" % (pk - 1)] = -1
        p["next%d" % (pk - 1)] = -1
    slots = [(A, 1, 1), (D, 1, 1), (X, rnd.choice([0, 1]), rnd.choice([1, 2]))] + ([(Z, 1, 1)] if Z else [])
    rnd.shuffle(slots)
    for i, (t, dgt, op) in enumerate(slots):
        put("r%d" % i, t, dgt, op=op)
    p["nv%d" % (A - 1)] = 1
    ta = ver(A, 0, 1)
    star_first = rnd.random() < 0.5
    put("p%ss%d" % (ta, 0 if star_first else 1), X, 1, op=0)                     # a requires x@*
    put("p%ss%d" % (ta, 1 if star_first else 0), D, rnd.choice([0, 2]), op=1)     # and d@2 (maybe a symbolic digit)
    p["nv%d" % (D - 1)] = 2
    ver(D, 0, 1)
    td = ver(D, 1, 2)
    put("p%ss0" % td, X, rnd.choice([0, 2]), op=rnd.choice([1, 1, 2, 3]))          # the nested d@2 requires x@2
    p["nv%d" % (X - 1)] = 2
    ver(X, 0, 1)
    ver(X, 1, 2)
    if Z:
        p["nv%d" % (Z - 1)] = 2
        ver(Z, 0, 1)
        tz = ver(Z, 1, 2)
        put("p%ss0" % tz, X, 1, op=2)     # z@2 -> x@^1
        put("p%ss1" % td, Z, 2, op=1)     # d@2 -> z@2
    return p


def directed_bundle_pick(rnd):
    """Directed family: the version installed afresh is not the highest match (the highest is deprecated, the
    latest tag does not satisfy), and the installed version, the highest one or both ship a bundle."""
    p = skeleton2(rnd, np=3)
    for k in list(p):
        if k.endswith("t") and (k.startswith("p") or k.startswith("r") or k.startswith("b")):
            p[k] = 0
        if k.startswith("bn"):
            p[k] = 0
    A, B, C = rnd.sample([1, 2, 3], 3)

    def put(tag, t, digit, op=1, kind=0, alias=0):
        p.update({tag + "t": t, tag + "r": op, tag + "k": kind, tag + "a": alias, tag + "c": digit})

    def ver(pk, vi, major, minor=0, bl=0):
        tag = "%d%d" % (pk - 1, vi)
        p.update({"mj" + tag: major, "mi" + tag: minor, "pr" + tag: 0, "bl" + tag: bl})
        return tag
    via_c = rnd.random() < 0.4
    if via_c:   # the bundler is required one level down
        put("r0", C, 1)
        p["nv%d" % (C - 1)] = 1
        put("p%ss0" % ver(C, 0, 1), A, rnd.choice([0, 1]), op=rnd.choice([2, 3, 4]))
    else:
        put("r0", A, rnd.choice([0, 1]), op=rnd.choice([2, 3, 4]))   # ^D.0.0, >=D.0.0, D.x
        p["nv%d" % (C - 1)] = 1
        ver(C, 0, 1)
    if rnd.random() < 0.5:
        put("r1", B, rnd.choice([1, 2, 3]), op=rnd.choice([1, 2]))
    # the bundler: 1.0.0, 1.1.0 deprecated, maybe 2.0.0 tagged latest (does not satisfy ^1 / 1.x)
    three = rnd.random() < 0.5
    p["nv%d" % (A - 1)] = 3 if three else 2
    tags = [ver(A, 0, 1, 0, 0), ver(A, 1, 1, 1, 1)] + ([ver(A, 2, 2, 0, 0)] if three else [])
    p["latest%d" % (A - 1)] = 2 if three and rnd.random() < 0.7 else -1
    p["next%d" % (A - 1)] = -1
    ships = rnd.choice([(1, 0), (0, 1), (1, 1), (1, 1)])
    for vi in (0, 1):
        put("p%ss0" % tags[vi], B, rnd.choice([1, 2, 3]), op=rnd.choice([1, 2, 0]), kind=4 if ships[vi] else 0)
        if ships[vi]:
            p["bn" + tags[vi]] = rnd.choice([1, 2, 3])
            if rnd.random() < 0.4:
                put("b" + tags[vi], C, 1, op=rnd.choice([0, 1]))
    p["anybundle"] = 1
    p["nv%d" % (B - 1)] = 3
    for vi, mj in enumerate(rnd.sample([1, 2, 3], 3)):
        ver(B, vi, mj)
    p["latest%d" % (B - 1)] = rnd.choice([-1, 0, 1, 2])
    p["next%d" % (B - 1)] = -1
    return p


def run(tier):
    q = tier == "quick"
    base = dict(unwind=400, timeout_s=300 if q else 1200, summarise=SUM, max_witnesses=1, witness_every=50, panic_is_violation=True,
                max_steps=50_000_000, max_depth=200)
    rnd = random.Random(20261001)  # fixed: the same skeletons on every run
    n = 60 if q else 600
    jobs = [dict(base, harness="VerifC06Resolve", params=skeleton(rnd, not q)) for _ in range(n)]
    rnd2 = random.Random(20261002)
    n2 = 1100 if q else 12000
    na = 400 if q else 4000
    jobs2 = [dict(base, harness="VerifC06Install", params=skeleton2(rnd2)) for _ in range(n2)]
    jobs2 += [dict(base, harness="VerifC06Install", params=skeleton2(rnd2, alias_p=0.35)) for _ in range(na)]
    jobs2 += [dict(base, harness="VerifC06Install", params=directed_alias(rnd2)) for _ in range(24 if q else 240)]
    # universes with bundled (derived) packages: the graph clauses only
    jobs2 += [dict(base, harness="VerifC06Install", params=skeleton2(rnd2, bundle_p=0.35)) for _ in range(300 if q else 4000)]
    jobs2 += [dict(base, harness="VerifC06Install", params=directed_bundle_pick(rnd2)) for _ in range(40 if q else 400)]
    jobs2 += [dict(base, harness="VerifC06Install", params=directed_star_shadow(rnd2)) for _ in range(24 if q else 240)]
    return run_property("C06", tier, [Group("rnpm", jobs + jobs2)],
                        required_covers=["resolved", "a graph with several nodes", "fresh install checked", "a nested install (depth 2)",
                                         "a nested install below a nested install (depth 3)", "an edge resolved to a nested install", "a bundled copy used", "the bundle of an installed version looked for"],
                        assumptions=["universe skeletons are a fixed pseudo-random sample (first generation: 3 packages + root, <=3 versions, one requirement slot per version; second generation: 3-4 packages + root, <=3 versions with minor 0/1 and optional -rc, two requirement slots per version and four on the root, kinds regular/optional/dev/peer/bundle-scoped/dev+optional, aliases in a quarter of the skeletons, two requirements of one version on one package only in the combinations package.json merging defines); version majors and the digits in requirements are symbolic in 1..4",
                                     "the install tree is observed through the verif-tagged hook at the end of npm Resolve (util/resolve/npm/verif_hook.go); the tree clauses are: tree nodes = graph nodes, no directory holds a package name twice (children vs aliases), Node's walk-up lookup from the dependent lands on the edge's target",
                                     "bundled (derived) packages (a version brings along a copy of the package its first requirement names, optionally with a requirement of its own) are generated in a fifth of the universes; for those the graph clauses are asserted, as the property says, plus two clauses on where bundle content sits (a bundled copy sits in the directory of the version that ships it; an installed version has its own bundle content in its directory); a directed family makes the freshly installed version differ from the highest match while either ships a bundle"],
                        bounds={"skeletons_gen1": n, "skeletons_gen2": n2 + na, "packages": "3-4", "versions_per_package": 3, "slots_per_version": 2, "digits": "1-4"})
