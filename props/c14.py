"""C14 — the in-memory client reports exactly what was last added."""
import itertools
from vlib.runner import Group, run_property

SUM = ["(deps.dev/util/resolve/internal/attr.Set).Compare", "deps.dev/util/semver.compare"]
SYSTEMS = {1: "NPM", 2: "Maven", 3: "PyPI"}   # values of the API's System enum; see resolve.go


def histories(h, tier):
    # each step: (package, version, deleted, number of requirements)
    if tier == "quick":
        steps = [(0, 0, 0, 0), (0, 0, 0, 1), (0, 1, 0, 0), (1, 0, 1, 0), (0, 2, 0, 2), (0, 0, 0, 2), (0, 4, 0, 0), (0, 0, 1, 2)]  # the last: a deleted-flagged addition of a key used by others
    else:
        steps = [(p, v, d, n) for p in (0, 1) for v in (0, 1, 2, 3, 4) for d in (0, 1) for n in (0, 1, 2)]
    return itertools.product(steps, repeat=h)


def run(tier):
    jobs = []
    base = dict(unwind=80, timeout_s=900, summarise=SUM, max_witnesses=1, witness_every=500, panic_is_violation=True)
    hs = [1, 2, 3] if tier == "quick" else [1, 2, 3, 4]
    for sys in SYSTEMS:
        for h in hs:
            hist = list(histories(h, tier))
            if tier != "quick" and h == 3:
                hist = hist[::97]  # a spread sample of the 60^3 three-step histories; all one- and two-step ones are complete
            if tier != "quick" and h == 4:
                hist = hist[::19997]
            for hh in hist:
                p = {"sys": sys, "h": h}
                for i, (pp, v, d, n) in enumerate(hh):
                    p.update({"s%dp" % i: pp, "s%dv" % i: v, "s%dd" % i: d, "s%dn" % i: n})
                # every other history that adds some key twice also queries the client between the additions
                keys = [(pp, v) for (pp, v, d, n) in hh]
                p["midq"] = 1 if len(set(keys)) < len(keys) and len(jobs) % 2 else 0
                jobs.append(dict(base, harness="VerifC14History", params=p))
    return run_property("C14", tier, [Group("resolve", jobs)], required_covers=["added version looked up", "latest-tagged version among several"],
                        assumptions=["in half of the histories that add a key twice the client is also queried (MatchingVersions, Versions, Requirements) between the additions", "keys of each AddVersion call are concrete job parameters (versions 1.0.0, 1.1.0, 2.0.0-a, 0.9.0 and the unparsable foo); the blocked flag, the tag (none, latest, other) and requirement types are symbolic", "npm listings in which several versions carry the latest tag, or a latest-tagged prerelease meets only unparsable versions, are not judged for order"],
                        bounds={"history_len": max(hs), "packages": 3, "versions": 5})
