"""C13 — graph canonicalisation yields one representative per isomorphism class."""
import itertools
import math
from vlib.runner import Group, run_property

SUM = ["(deps.dev/util/resolve.Node).Compare", "(deps.dev/util/resolve/internal/attr.Set).Compare",
       "(deps.dev/util/resolve.NodeError).Compare", "(deps.dev/util/resolve.VersionKey).Compare"]


def structures(n, e, tier):
    pairs = [(f, t) for f in range(n) for t in range(n)]
    combos = list(itertools.product(pairs, repeat=e))
    if tier == "quick":
        # connected-looking sample: every 7th structure, plus all with e edges out of the root
        combos = [c for i, c in enumerate(combos) if i % 11 == 0 or all(f == 0 for f, _ in c)]
    return combos


def run(tier):
    jobs = []
    base = dict(unwind=120, timeout_s=600 if tier == "quick" else 3000, summarise=SUM, max_witnesses=1, witness_every=1000,
                panic_is_violation=True)
    sizes = [(2, 1), (3, 2), (3, 3), (4, 3)] if tier == "quick" else [(2, 1), (2, 2), (3, 2), (3, 3), (4, 3), (4, 4), (5, 4)]
    for n, e in sizes:
        st = structures(n, e, tier)
        if tier == "quick" and n == 4:
            st = st[::39]  # a spread sample of the four-node structures
        if tier != "quick" and n == 4:
            st = st[::37]
        if n == 5:
            st = st[::20011]
        for s in st:
            for perm in range(math.factorial(n - 1)):
                if tier == "quick" and perm not in (0, math.factorial(n - 1) - 1):
                    continue
                for errs, err2 in ([(0, 0), (3, 0), (6, 1)] if tier == "quick" else [(0, 0), (1, 0), (3, 0), (6, 0), (6, 1), (3, 1), (7, 1)]):
                    if tier == "quick" and err2 and n < 3:
                        continue
                    p = {"n": n, "e": e, "perm": perm, "rot": 1, "errs": errs, "err2": err2}
                    for j, (f, t) in enumerate(s):
                        p["f%d" % j] = f
                        p["t%d" % j] = t
                    jobs.append(dict(base, harness="VerifC13Canon", params=p))
    return run_property("C13", tier, [Group("resolve", jobs)], required_covers=["canonicalised", "canonicalisation refused"],
                        assumptions=["graph structure (endpoints, error placement, renumbering, edge rotation, order of the two errors of a node) from job parameters; all labels symbolic over {a,b}"],
                        bounds={"sizes_nodes_edges": sizes})
