"""C01 — version comparison is a total preorder."""
import itertools
from vlib.runner import Group, run_property

SEMVER_LIKE = {0: "Default", 1: "Cargo", 2: "Go", 4: "NPM", 5: "NuGet", 8: "Composer"}
SUM = ["deps.dev/util/semver.compare"]


def shapes(kmax, mmax, lmax):
    out = []
    for k in range(1, kmax + 1):
        for m in range(0, mmax + 1):
            for ls in itertools.product(range(1, lmax + 1), repeat=m):
                out.append((k, list(ls)))
    return out


def shape_params(tag, sh):
    k, ls = sh
    p = {tag + "k": k, tag + "m": len(ls)}
    for j, l in enumerate(ls):
        p["%sl%d" % (tag, j)] = l
    return p


def run(tier):
    jobs = []
    base = dict(unwind=40, timeout_s=900 if tier == "quick" else 3000, summarise=SUM, max_witnesses=1, witness_every=1000)
    if tier == "quick":
        # numeric component count matters only through zero padding: use k in {1,3}
        shp = [s for s in shapes(3, 1, 2) if s[0] in (1, 3)]
    else:
        shp = shapes(3, 2, 2)
    for sys in SEMVER_LIKE:
        for sa, sb, sc in itertools.product(shp, repeat=3):
            p = {"sys": sys}
            p.update(shape_params("a", sa))
            p.update(shape_params("b", sb))
            p.update(shape_params("c", sc))
            jobs.append(dict(base, harness="VerifC01Laws", params=p))
    ncov = 4 if tier == "quick" else 6
    for sys in SEMVER_LIKE:
        for n in range(1, ncov + 1):
            jobs.append(dict(base, harness="VerifC01Coverage", params={"sys": sys, "n": n}, max_witnesses=2, witness_every=100))
    EXT = {3: ("Maven", 20), 6: ("PyPI", 24), 7: ("RubyGems", 17)}
    QUICK_T = {3: [2, 5, 8], 6: [1, 5, 10, 13, 19], 7: [1, 5, 6, 9]}
    QUICK_T2 = {3: [1, 4, 7], 6: [17, 20, 18], 7: [5, 16, 1]}
    for sys, (_, nt) in EXT.items():
        ts = QUICK_T[sys] if tier == "quick" else list(range(nt))
        triples = list(itertools.product(ts, repeat=3))
        if tier == "quick" and sys in QUICK_T2:
            # a second family: separators ('.' against '-') and known against unknown qualifiers
            triples += list(itertools.product(QUICK_T2[sys], repeat=3))
        for ta, tb, tc in triples:
            jobs.append(dict(base, harness="VerifC01ExtLaws", params={"sys": sys, "ta": ta, "tb": tb, "tc": tc}))
    # history independence across systems (pairs of systems, same strings)
    syspairs = [(0, 4), (4, 1), (3, 0), (6, 4), (1, 2), (5, 4), (7, 0), (4, 8)] if tier == "quick" else [(x, y) for x in range(9) for y in range(9) if x != y]
    for sa_, sb_ in syspairs:
        for ta, tb in ([(0, 0), (1, 1), (2, 0), (3, 3)] if tier == "quick" else list(itertools.product(range(6), repeat=2))):
            jobs.append(dict(base, harness="VerifC01History", params={"sysa": sa_, "sysb": sb_, "ta": ta, "tb": tb}))
    return run_property("C01", tier, [Group("semver", jobs)], required_covers=["strict chain", "equal pair", "accepted", "three versions parsed", "both parse"],
                        assumptions=["struct-level versions: numeric components are arbitrary int64 >= -1 (wildcard), prerelease bytes in [0-9A-Za-z-] (NuGet: trailing *)"],
                        bounds={"shapes": "k<=3 components, prerelease elements <= %d of <= 2 bytes" % (1 if tier == "quick" else 2), "coverage_len": ncov})
