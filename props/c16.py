"""C16 — Python requirement strings and environment markers follow PEP 508."""
import itertools
from vlib.runner import Group, run_property


def run(tier):
    base = dict(unwind=120, timeout_s=600 if tier == "quick" else 3000, max_witnesses=1, witness_every=1000, panic_is_violation=True,
                summarise=["deps.dev/util/semver.compare"])
    pj = []
    q = tier == "quick"
    for tn in ([1, 3, 4, 5, 6] if q else range(7)):
        pj.append(dict(base, harness="VerifC16CanonName", params={"tn": tn}))
        for te in ([0, 2, 4] if q else range(6)):
            for ts in ([0, 1, 3] if q else range(9)):
                for tm in ([0, 2] if q else range(5)):
                    for w in ([(0, 0, 0, 0), (1, 1, 1, 2)] if q else [(0, 0, 0, 0), (1, 1, 1, 2), (0, 2, 0, 1), (3, 0, 3, 0)]):
                        if ts == 0 and tm == 0 and w[2] != 0:
                            pass
                        pj.append(dict(base, harness="VerifC16Requirement",
                                       params={"tn": tn, "te": te, "ts": ts, "tm": tm, "w0": w[0], "w1": w[1], "w2": w[2], "w3": w[3]}))
    for n in range(0, (4 if q else 6) + 1):
        pj.append(dict(base, harness="VerifC16CanonIdempotent", params={"n": n}))
    mj = []
    vars_ = [0, 1, 3, 4] if q else range(9)
    ops = range(9)
    lits = [1, 3, 4, 6] if q else range(9)
    for v, o, l in itertools.product(vars_, ops, lits):
        mj.append(dict(base, harness="VerifC16Marker", params={"shape": 0, "x0": 0, "v0": v, "o0": o, "l0": l, "w": (v + o) % 3, "q": l % 2}))
    # leading-v version literals against the version variables
    for v, o, l in itertools.product([0, 1, 2], range(7), [9, 10, 11]):
        if q and (v + o + l) % 2:
            continue
        mj.append(dict(base, harness="VerifC16Marker", params={"shape": 0, "x0": 0, "v0": v, "o0": o, "l0": l, "w": 1, "q": l % 2}))
    # version literals padded with a space inside the quotes (packaging strips it)
    for v, o, l in itertools.product([0, 1, 2], range(7), [12, 13, 14]):
        if q and (v + o + l) % 2:
            continue
        mj.append(dict(base, harness="VerifC16Marker", params={"shape": 0, "x0": 0, "v0": v, "o0": o, "l0": l, "w": 1, "q": l % 2}))
    # literal on the left: ordering of versions, equality/containment of strings, extra on the right
    for v, o, l in itertools.product([0, 1, 2], range(6), [1, 2, 6, 9]):
        if q and (v + o + l) % 3:
            continue
        mj.append(dict(base, harness="VerifC16Marker", params={"shape": 0, "x0": 0, "rev0": 1, "v0": v, "o0": o, "l0": l, "w": 1, "q": 0}))
    for v, o, l in itertools.product([3, 4, 7], [2, 3, 7, 8], [3, 4, 5, 8]):
        mj.append(dict(base, harness="VerifC16Marker", params={"shape": 0, "x0": 0, "rev0": 1, "v0": v, "o0": o, "l0": l, "w": 1, "q": 0}))
    for shape in (0, 1, 2):
        mj.append(dict(base, harness="VerifC16Marker", params={"shape": shape, "x0": 2, "x1": 0, "v0": 0, "o0": 0, "l0": 0, "v1": 3, "o1": 3, "l1": 4, "w": 1, "q": 0}))
    # boolean structure and extras
    for shape in (1, 2, 3, 4, 5):
        for x0, x1 in ((0, 0), (1, 0), (0, 1)):
            for (v, o, l) in ([(0, 4, 1), (3, 3, 4), (1, 1, 2)] if q else [(0, 4, 1), (3, 3, 4), (1, 1, 2), (4, 7, 5), (2, 6, 2), (5, 2, 3)]):
                p = {"shape": shape, "w": 1, "q": 0}
                for k, xx in enumerate((x0, x1, 0)):
                    p.update({"x%d" % k: xx, "v%d" % k: (v + k) % 9, "o%d" % k: (o + k) % 6, "l%d" % k: (l + 2 * k) % 8})
                mj.append(dict(base, harness="VerifC16Marker", params=p))
    # resolution level: the guarded dependency is followed exactly when the marker holds for the requested extras
    fj = []
    for shape in (0, 1, 2, 3, 4):
        for x0, x1, x2 in ((0, 0, 0), (1, 0, 0), (0, 1, 0), (2, 0, 0), (0, 0, 1), (1, 1, 0)):
            for (v, o, l) in ([(0, 4, 1), (3, 3, 4), (1, 1, 2), (4, 3, 5)] if q else [(0, 4, 1), (3, 3, 4), (1, 1, 2), (4, 3, 5), (4, 7, 5), (2, 5, 2), (5, 2, 3)]):
                for withextra in (0, 1):
                    p = {"shape": shape, "w": 1, "q": 0, "withextra": withextra}
                    for k, xx in enumerate((x0, x1, x2)):
                        p.update({"x%d" % k: xx, "v%d" % k: (v + 3 * k) % 9, "o%d" % k: (o + k) % 6, "l%d" % k: (l + 3 * k) % 8})
                    fj.append(dict(base, harness="VerifC16Followed", params=p, summarise=base["summarise"] + ["(deps.dev/util/resolve.PackageKey).Compare"]))
    mj += fj
    for j in mj:
        for k in range(3):
            j["params"].setdefault("rev%d" % k, 0)
    return run_property("C16", tier, [Group("pypi", pj), Group("rpypi", mj)],
                        required_covers=["requirement parsed", "valid name canonicalised", "canon computed", "marker parsed", "marker true", "marker false",
                                         "comparison packaging rejects", "guarded dependency followed", "guarded dependency not followed"],
                        assumptions=["requirement strings are built from the PEP 508 pieces in harness/pypi/c16.go (the expected fields are known by construction)",
                                     "marker reference: version comparison for python_version / python_full_version / implementation_version against release literals (a leading v admitted), Python string comparison otherwise; the literal may stand on the left for version ordering, string equality/containment and extra; ~= and === on non-versions and URL requirements are outside"],
                        bounds={"name_len": "<=6", "marker_atoms": 3})
