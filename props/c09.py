"""C09 — set union and intersection are set-theoretic."""
import itertools
from vlib.runner import Group, run_property

SUM = ["deps.dev/util/semver.compare", "(deps.dev/util/semver.Set).matchVersion", "deps.dev/util/semver.canon$1"]
NCONS = {0: 33, 4: 33, 1: 30, 2: 8}  # the templates after these indices are C11's
NVERS = {0: 4, 4: 4, 1: 4, 2: 4}  # likewise
EXTRA = {0: [35], 4: [35], 1: [], 2: []}  # templates beyond C11's
QUICK = {0: [5, 6, 12, 24, 29], 4: [1, 7, 10, 24, 30], 1: [5, 9, 12, 26], 2: [0, 1, 5]}
# further operand pairs of the quick tier: the argument of Intersect/Union keeps overlapping unmerged spans
QUICK_PAIRS = {0: [(9, 35), (35, 9), (1, 35), (9, 32), (32, 9)], 4: [(9, 35), (35, 9), (2, 35), (32, 9)], 1: [], 2: []}


def run(tier):
    jobs = []
    base = dict(unwind=60, timeout_s=900 if tier == "quick" else 3000, summarise=SUM, max_witnesses=1, witness_every=1000,
                panic_is_violation=True)
    for sys in NCONS:
        ts = QUICK[sys] if tier == "quick" else list(range(NCONS[sys])) + EXTRA[sys]
        tvs = [0, 1] if tier == "quick" else list(range(NVERS[sys]))
        pairs = list(itertools.product(ts, repeat=2)) + (QUICK_PAIRS[sys] if tier == "quick" else [])
        for ta, tb in pairs:
            for tv in tvs:
                jobs.append(dict(base, harness="VerifC09SetAlgebra", params={"sys": sys, "ta": ta, "tb": tb, "tv": tv, "order": 0 if tier == "quick" else 1}))
    return run_property("C09", tier, [Group("semver", jobs)],
                        required_covers=["operands and version parsed", "union computed", "intersection computed"],
                        assumptions=["operands are instances of the constraint templates in harness/semver/c09.go with symbolic digits and letters"],
                        bounds={"digits_per_number": 1, "templates": "quick subset" if tier == "quick" else "all"})
