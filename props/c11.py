"""C11 — the textual form of a constraint set parses back to the same set."""
from vlib.runner import Group, run_property

SUM = ["deps.dev/util/semver.compare", "(deps.dev/util/semver.Set).matchVersion", "deps.dev/util/semver.canon$1",
       "(*deps.dev/util/semver.Constraint).MatchVersionPrerelease"]
NCONS = {0: 29, 4: 29, 1: 26, 2: 5, 5: 21}  # C11 takes constraints only: the set-syntax templates at the end of the C09 lists are not used
QUICK = {0: [1, 5, 7, 9, 11, 16, 17, 25, 26, 27, 33, 34], 4: [2, 6, 8, 10, 12, 15, 19, 25, 26, 28, 33, 34], 1: [0, 5, 9, 13, 14, 17, 23, 24, 25, 30, 31], 2: [0, 1, 2, 4], 5: [0, 1, 4, 5, 6, 8, 10, 15, 16, 17, 18, 19, 20]}


def run(tier):
    jobs = []
    base = dict(unwind=60, timeout_s=600 if tier == "quick" else 3000, summarise=SUM, max_witnesses=1, witness_every=1000,
                panic_is_violation=True)
    for sys in NCONS:
        ts = QUICK[sys] if tier == "quick" else list(range(NCONS[sys]))
        tvs = [0, 1, 2] if tier == "quick" else [0, 1, 2, 3]
        if sys == 5:
            tvs = tvs + [4, 5, 6]
        elif sys in (0, 4, 1):
            tvs = tvs + [4, 5]
        for tc in ts:
            for tv in tvs:
                jobs.append(dict(base, harness="VerifC11RoundTrip", params={"sys": sys, "tc": tc, "tv": tv}))
    return run_property("C11", tier, [Group("semver", jobs)],
                        required_covers=["constraint and version parsed", "printed set parsed back"],
                        assumptions=["constraints are instances of the templates in harness/semver/c09.go and c11.go with symbolic digits and letters"],
                        bounds={"digits_per_number": 1, "templates": "quick subset" if tier == "quick" else "all"})
