package deptest

// C04 for the dependency-type text parser used by the schema.

func VerifC04DepParse() {
	s := vBytes("s", vParam("n"))
	dt, err := ParseString(s)
	vObserveBool("ok", err == nil)
	if err == nil {
		vCover(true, "accepted")
		_ = dt.String()
	} else {
		vCover(true, "rejected")
	}
}

// VerifC04DepParseKeyed: a valid key followed by arbitrary bytes (values, quotes).
func VerifC04DepParseKeyed() {
	keys := []string{"opt", "dev", "scope", "knownas", "environment", "selector"}
	s := keys[vParam("key")] + " " + vBytes("s", vParam("n"))
	dt, err := ParseString(s)
	vObserveBool("ok", err == nil)
	if err == nil {
		vCover(true, "accepted")
		_ = dt.String()
	} else {
		vCover(true, "rejected")
	}
}
