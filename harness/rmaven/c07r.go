package maven

// C07 (whole resolver): small universes with symbolic version digits resolved
// by the real Maven resolver; the mediation clauses are asserted on the graph.

import (
	"context"

	"deps.dev/util/resolve"
	"deps.dev/util/resolve/dep"
	"deps.dev/util/semver"
)

var c07D = [...]string{"0", "1", "2", "3"}

func c07PK(name string) resolve.PackageKey {
	return resolve.PackageKey{System: resolve.Maven, Name: name}
}
func c07VK(name, ver string) resolve.VersionKey {
	return resolve.VersionKey{PackageKey: c07PK(name), VersionType: resolve.Concrete, Version: ver}
}

var c07ReqKinds = []string{"D.0", "D.0", "[D.0,E.0]", "[D.0,)", "[D.0]", "(,D.0)", "D.0"}
var c07Names = []string{"g:a", "g:b", "g:c"}

func c07Req(kind int, tag string) string {
	t := c07ReqKinds[kind]
	out := ""
	for i := 0; i < len(t); i++ {
		switch t[i] {
		case 'D', 'E':
			b := vByte(tag + "." + t[i:i+1])
			vAssume(vAnd('1' <= b, b <= '4'))
			out += string([]byte{b})
		default:
			out += t[i : i+1]
		}
	}
	return out
}

func c07Slot(tag string) (resolve.RequirementVersion, bool) {
	target := vParam(tag + "t")
	if target == 0 {
		return resolve.RequirementVersion{}, false
	}
	var t dep.Type
	switch vParam(tag + "k") {
	case 1:
		t.AddAttr(dep.Opt, "")
	case 2:
		t.AddAttr(dep.Test, "")
	case 3:
		t.AddAttr(dep.Scope, "provided")
	case 4:
		t.AddAttr(dep.MavenExclusions, c07Names[vParam(tag+"x")%3])
	case 5:
		t.AddAttr(dep.MavenArtifactType, "war")
	}
	return resolve.RequirementVersion{VersionKey: resolve.VersionKey{PackageKey: c07PK(c07Names[target-1]), VersionType: resolve.Requirement, Version: c07Req(vParam(tag+"r"), tag)}, Type: t}, true
}

var c07MgtReq string

func c07Entries() ([]c05Entry, resolve.VersionKey) {
	var out []c05Entry
	root := c07VK("g:r", "1.0")
	var rr []resolve.RequirementVersion
	for s := 0; s < 3; s++ {
		if r, ok := c07Slot("r" + c07D[s]); ok {
			rr = append(rr, r)
		}
	}
	if vParam("mgt") != 0 {
		var t dep.Type
		t.AddAttr(dep.MavenDependencyOrigin, "management")
		c07MgtReq = c07Req(vParam("mgtr"), "mgt")
		rr = append(rr, resolve.RequirementVersion{VersionKey: resolve.VersionKey{PackageKey: c07PK(c07Names[vParam("mgt")-1]), VersionType: resolve.Requirement, Version: c07MgtReq}, Type: t})
	}
	out = append(out, c05Entry{v: resolve.Version{VersionKey: root}, reqs: rr})
	for pi, p := range c07Names {
		prev := byte(0)
		for vi := 0; vi < vParam("nv"+c07D[pi]); vi++ {
			b := vByte("ver" + c07D[pi] + c07D[vi])
			vAssume(vAnd('1' <= b, b <= '4'))
			vAssume(prev < b) // distinct, listed in ascending order
			prev = b
			v := string([]byte{b}) + ".0"
			var reqs []resolve.RequirementVersion
			if r, ok := c07Slot("p" + c07D[pi] + c07D[vi]); ok {
				reqs = append(reqs, r)
			}
			out = append(out, c05Entry{v: resolve.Version{VersionKey: c07VK(p, v)}, reqs: reqs})
		}
	}
	return out, root
}

func c07Universe() (*resolve.LocalClient, resolve.VersionKey) {
	es, root := c07Entries()
	return c05Client(es, false), root
}

func VerifC07Resolve() {
	lc, root := c07Universe()
	c07Run(lc, root)
}

// c07Run resolves and asserts the mediation clauses on the graph.
func c07Run(lc *resolve.LocalClient, root resolve.VersionKey) {
	ctx := context.Background()
	r := NewResolver(lc)
	g, err := r.Resolve(ctx, root)
	if !vEngine() {
		for _, pk := range append([]resolve.PackageKey{root.PackageKey}, c07PK("g:a"), c07PK("g:b"), c07PK("g:c"), c07PK("g:d")) {
			vs, _ := lc.Versions(ctx, pk)
			for _, v := range vs {
				rs, _ := lc.Requirements(ctx, v.VersionKey)
				s := v.VersionKey.String() + " <-"
				for _, rq := range rs {
					s += " [" + rq.VersionKey.String() + " " + rq.Type.String() + "]"
				}
				vNote(s)
			}
		}
		if err == nil {
			vNote(g.String())
		} else {
			vNote("error: " + err.Error())
		}
	}
	if err != nil {
		// an unsatisfiable or unparsable requirement may be reported as an error instead of a graph
		vCover(true, "resolution error")
		return
	}
	vCover(true, "resolved")
	vObserveInt("nodes", len(g.Nodes))
	vCover(g.Error == "" && len(g.Nodes) > 2, "a graph with several nodes")
	if g.Error != "" {
		vCover(true, "graph-level error")
		return
	}
	// at most one version of each artifact (group:artifact with classifier and type; jar is the default type).
	// A node may be reached under several identities (the same version as plain jar and as a classifier
	// variant): two nodes of one package conflict when they share an identity.
	idents := func(ni int) []string {
		var out []string
		for _, e := range g.Edges {
			if int(e.To) == ni {
				t, _ := e.Type.GetAttr(dep.MavenArtifactType)
				if t == "jar" {
					t = ""
				}
				c, _ := e.Type.GetAttr(dep.MavenClassifier)
				out = append(out, t+"|"+c)
			}
		}
		return out
	}
	ident := func(ni int) (string, bool) {
		ids := idents(ni)
		if len(ids) == 0 {
			return "", false
		}
		for _, x := range ids[1:] {
			if x != ids[0] {
				return "", false
			}
		}
		t := ids[0]
		for k := 0; k < len(t); k++ {
			if t[k] == '|' {
				return t[:k], true
			}
		}
		return t, true
	}
	for i := 1; i < len(g.Nodes); i++ {
		for j := i + 1; j < len(g.Nodes); j++ {
			if g.Nodes[i].Version.PackageKey != g.Nodes[j].Version.PackageKey {
				continue
			}
			for _, a := range idents(i) {
				for _, b := range idents(j) {
					vAssert(a != b, "at most one version of each artifact")
				}
			}
		}
	}
	// every edge whose requirement is a range points inside that range
	for _, e := range g.Edges {
		c, cerr := semver.Maven.ParseConstraint(e.Requirement)
		if cerr != nil || c.IsSimple() {
			continue
		}
		vAssert(c.Match(g.Nodes[e.To].Version.Version), "an edge whose requirement is a range points to a version inside that range")
	}
	// test, optional and provided dependencies are followed only from the root; war/ear/rar are not traversed
	for _, e := range g.Edges {
		if e.From != 0 {
			vAssert(!e.Type.HasAttr(dep.Test) && !e.Type.HasAttr(dep.Opt), "test and optional dependencies are followed only from the root")
			if s, ok := e.Type.GetAttr(dep.Scope); ok {
				vAssert(s != "provided", "provided dependencies are followed only from the root")
			}
		}
	}
	for ni := 1; ni < len(g.Nodes); ni++ {
		if t, ok := ident(ni); ok && t == "war" {
			for _, e2 := range g.Edges {
				vAssert(int(e2.From) != ni, "artifacts of type war are not traversed")
			}
		}
	}
	// nearest wins: for skeletons with only soft requirements and no exclusions or management, the version
	// of each artifact is the one demanded by the first declaration in breadth-first order
	if vParam("allsoft") == 1 {
		// Reference mediation for soft requirements: breadth-first from the root; the first declaration of an
		// artifact that is not excluded on its path decides the version; an expanded artifact hands the
		// exclusions of its path (those of the edge that reached it included) down to its own declarations.
		type item struct {
			vk   resolve.VersionKey
			excl []string
		}
		chosen := map[resolve.PackageKey]string{}
		order := []item{{vk: root}}
		for qi := 0; qi < len(order); qi++ {
			reqs, rerr := lc.Requirements(ctx, order[qi].vk)
			if rerr != nil {
				continue
			}
			for _, rq := range reqs {
				if qi != 0 && (rq.Type.HasAttr(dep.Test) || rq.Type.HasAttr(dep.Opt)) {
					continue
				}
				if s, ok := rq.Type.GetAttr(dep.Scope); ok && s == "provided" && qi != 0 {
					continue
				}
				excluded := false
				for _, x := range order[qi].excl {
					if x == rq.Name {
						excluded = true
					}
				}
				if excluded {
					vCover(true, "a declaration excluded on its path")
					continue
				}
				if _, done := chosen[rq.PackageKey]; done {
					continue
				}
				chosen[rq.PackageKey] = rq.Version
				vk := resolve.VersionKey{PackageKey: rq.PackageKey, VersionType: resolve.Concrete, Version: rq.Version}
				if _, verr := lc.Version(ctx, vk); verr == nil {
					if t, ok := rq.Type.GetAttr(dep.MavenArtifactType); !ok || t != "war" {
						excl := append([]string(nil), order[qi].excl...)
						if x, ok := rq.Type.GetAttr(dep.MavenExclusions); ok {
							excl = append(excl, x)
						}
						order = append(order, item{vk: vk, excl: excl})
					}
				}
			}
		}
		for _, n := range g.Nodes[1:] {
			want, ok := chosen[n.Version.PackageKey]
			vAssert(ok, "every artifact in the graph is demanded by some declaration that is not excluded on its path")
			if ok && len(n.Errors) == 0 {
				vCover(true, "nearest-wins checked")
				vAssert(n.Version.Version == want, "the version of an artifact is the one demanded by the declaration nearest to the root")
			}
		}
		// and the other way round: what the reference reaches with a listed version is in the graph
		for _, it := range order[1:] {
			found := false
			for _, n := range g.Nodes {
				if n.Version == it.vk {
					found = true
				}
			}
			vAssert(found, "every artifact reached by a declaration that is not excluded is in the graph")
		}
	}
	// reachability
	reach := make([]bool, len(g.Nodes))
	reach[0] = true
	for round := 0; round < len(g.Nodes); round++ {
		for _, e := range g.Edges {
			if reach[e.From] {
				reach[e.To] = true
			}
		}
	}
	for i := range reach {
		vAssert(reach[i], "every node is reachable from the root")
	}
	// the root's dependencyManagement overrides the version of a transitive declaration
	if vParam("mgt") != 0 {
		c, cerr := semver.Maven.ParseConstraint(c07MgtReq)
		if cerr == nil && c.IsSimple() {
			for _, e := range g.Edges {
				if t, typed := e.Type.GetAttr(dep.MavenArtifactType); typed && t != "jar" {
					continue
				}
				if _, classified := e.Type.GetAttr(dep.MavenClassifier); classified {
					continue // a classifier variant is another artifact: the management entry is for the plain one
				}
				if e.From != 0 && g.Nodes[e.To].Version.PackageKey == c07PK(c07Names[vParam("mgt")-1]) {
					vCover(true, "management override checked")
					vAssert(e.Requirement == c07MgtReq, "the root's dependencyManagement overrides transitive versions")
				}
			}
		}
	}
}

// ---- C05: resolution is a pure function of the universe and the root

type c05Entry struct {
	v    resolve.Version
	reqs []resolve.RequirementVersion
}

func c05Client(es []c05Entry, reversed bool) *resolve.LocalClient {
	lc := resolve.NewLocalClient()
	for k := range es {
		e := es[k]
		if reversed {
			e = es[len(es)-1-k]
		}
		lc.AddVersion(e.v, append([]resolve.RequirementVersion(nil), e.reqs...))
	}
	return lc
}

type c05Snap struct {
	reqs [][]resolve.RequirementVersion
	vers [][]resolve.Version
}

func c05Take(lc *resolve.LocalClient, es []c05Entry) *c05Snap {
	ctx := context.Background()
	s := &c05Snap{}
	for _, e := range es {
		rs, _ := lc.Requirements(ctx, e.v.VersionKey)
		s.reqs = append(s.reqs, append([]resolve.RequirementVersion(nil), rs...))
		vs, _ := lc.Versions(ctx, e.v.PackageKey)
		s.vers = append(s.vers, append([]resolve.Version(nil), vs...))
	}
	return s
}

func c05SameSnap(a, b *c05Snap, what string) {
	ok := true
	for i := range a.reqs {
		if len(a.reqs[i]) != len(b.reqs[i]) || len(a.vers[i]) != len(b.vers[i]) {
			ok = false
			continue
		}
		for j := range a.reqs[i] {
			ok = vAnd(ok, vAnd(a.reqs[i][j].VersionKey == b.reqs[i][j].VersionKey, a.reqs[i][j].Type.Equal(b.reqs[i][j].Type)))
		}
		for j := range a.vers[i] {
			ok = vAnd(ok, vAnd(a.vers[i][j].VersionKey == b.vers[i][j].VersionKey, a.vers[i][j].AttrSet.Equal(b.vers[i][j].AttrSet)))
		}
	}
	vAssert(ok, what+": the client reports the same requirements and versions, in the same order, as before")
}

func c05Clone(g *resolve.Graph) *resolve.Graph {
	if g == nil {
		return nil
	}
	c := &resolve.Graph{Error: g.Error}
	for _, n := range g.Nodes {
		c.Nodes = append(c.Nodes, resolve.Node{Version: n.Version, Errors: append([]resolve.NodeError(nil), n.Errors...)})
	}
	c.Edges = append(c.Edges, g.Edges...)
	return c
}

func c05SameGraph(g1, g2 *resolve.Graph, what string) {
	if g1 == nil || g2 == nil {
		vAssert(g1 == nil && g2 == nil, what+": both resolutions fail or both succeed")
		return
	}
	vAssert((g1.Error == "") == (g2.Error == ""), what+": both report a graph error or neither")
	vAssert(len(g1.Nodes) == len(g2.Nodes) && len(g1.Edges) == len(g2.Edges), what+": the same number of nodes and edges")
	if len(g1.Nodes) != len(g2.Nodes) || len(g1.Edges) != len(g2.Edges) {
		return
	}
	// Order-insensitive comparison (counting equal elements on both sides avoids sorting symbolic data):
	// every node and every edge occurs equally often in both graphs. One obligation per comparison.
	ok := len(g1.Nodes) == 0 || g1.Nodes[0].Version == g2.Nodes[0].Version
	for _, n := range g1.Nodes {
		c1, c2 := 0, 0
		for _, m := range g1.Nodes {
			c1 += vIteInt(vAnd(m.Version == n.Version, len(m.Errors) == len(n.Errors)), 1, 0)
		}
		for _, m := range g2.Nodes {
			c2 += vIteInt(vAnd(m.Version == n.Version, len(m.Errors) == len(n.Errors)), 1, 0)
		}
		ok = vAnd(ok, c1 == c2)
	}
	same := func(ga *resolve.Graph, a resolve.Edge, gb *resolve.Graph, b resolve.Edge) bool {
		return vAnd(vAnd(ga.Nodes[a.From].Version == gb.Nodes[b.From].Version, ga.Nodes[a.To].Version == gb.Nodes[b.To].Version),
			vAnd(a.Requirement == b.Requirement, a.Type.Equal(b.Type)))
	}
	for _, e := range g1.Edges {
		c1, c2 := 0, 0
		for _, f := range g1.Edges {
			c1 += vIteInt(same(g1, e, g1, f), 1, 0)
		}
		for _, f := range g2.Edges {
			c2 += vIteInt(same(g1, e, g2, f), 1, 0)
		}
		ok = vAnd(ok, c1 == c2)
	}
	vAssert(ok, what+": the same graph (root, nodes and edges)")
}

// c05Purity runs the purity clauses with the given resolver constructor.
func c05Purity(es []c05Entry, root resolve.VersionKey, mk func(resolve.Client) resolve.Resolver) {
	lc := c05Client(es, false)
	ctx := context.Background()
	before := c05Take(lc, es)
	r := mk(lc)
	g1, err1 := r.Resolve(ctx, root)
	if err1 != nil {
		g1 = nil
	}
	vCover(g1 != nil && len(g1.Nodes) > 1, "resolved a graph with dependencies")
	c05SameSnap(before, c05Take(lc, es), "after Resolve")
	g1b, err := r.Resolve(ctx, root)
	if err != nil {
		g1b = nil
	}
	c05SameGraph(c05Clone(g1), c05Clone(g1b), "asking again")
	if len(es) > 1 {
		alt := es[1+vParam("alt")%(len(es)-1)].v.VersionKey
		gAlt, errAlt := r.Resolve(ctx, alt)
		if errAlt != nil {
			gAlt = nil
		}
		vCover(true, "other root resolved in between")
		// the other root's own graph does not depend on the resolutions run before it on this resolver
		gFresh, errFresh := mk(c05Client(es, false)).Resolve(ctx, alt)
		if errFresh != nil {
			gFresh = nil
		}
		c05SameGraph(c05Clone(gAlt), c05Clone(gFresh), "a root resolved after another one, against a fresh resolver")
		g1c, err := r.Resolve(ctx, root)
		if err != nil {
			g1c = nil
		}
		c05SameGraph(c05Clone(g1), c05Clone(g1c), "after resolving another root on the same resolver")
		c05SameSnap(before, c05Take(lc, es), "after resolving another root")
	}
	lc2 := c05Client(es, true)
	g2, err := mk(lc2).Resolve(ctx, root)
	if err != nil {
		g2 = nil
	}
	c05SameGraph(c05Clone(g1), c05Clone(g2), "with the versions inserted in the opposite order")
}

func VerifC05Maven() {
	es, root := c07Entries()
	c05Purity(es, root, NewResolver)
}
