package maven

// C07: unit lemmas behind Maven's mediation rules: findMatch (preference order
// over soft and hard requirements), exclusions, root-only scopes in imports,
// artifact identity (classifier, type, jar == empty).

import (
	"context"
	"errors"
	"strings"

	"deps.dev/util/resolve"
	"deps.dev/util/resolve/dep"
	"deps.dev/util/semver"
)

var c07ReqTemplates = []string{"d.0", "[d.0]", "[d.0,d.0]", "[d.0,)", "(,d.0]", "(d.0,d.0)", "[d.0,d.0)"}

func c07Inst(t, tag string) string {
	sym := vBytes(tag, len(t))
	out := ""
	for i := 0; i < len(t); i++ {
		b := sym[i]
		if t[i] == 'd' {
			vAssume(vAnd('1' <= b, b <= '4'))
			out += string([]byte{b})
		} else {
			out += t[i : i+1]
		}
	}
	return out
}

func VerifC07FindMatch() {
	pk := resolve.PackageKey{System: resolve.Maven, Name: "g:a"}
	lc := resolve.NewLocalClient()
	listed := []string{"1.0", "2.0", "3.0"}
	for i, v := range listed {
		if vParam("listed")&(1<<uint(i)) != 0 {
			lc.AddVersion(resolve.Version{VersionKey: resolve.VersionKey{PackageKey: pk, VersionType: resolve.Concrete, Version: v}}, nil)
		}
	}
	if vParam("listed") == 0 {
		// the package is known but has no versions
		lc.AddVersion(resolve.Version{VersionKey: resolve.VersionKey{PackageKey: resolve.PackageKey{System: resolve.Maven, Name: "g:b"}, VersionType: resolve.Concrete, Version: "1"}},
			[]resolve.RequirementVersion{{VersionKey: resolve.VersionKey{PackageKey: pk, VersionType: resolve.Requirement, Version: "1.0"}}})
	}
	n := vParam("n")
	var reqs []resolve.VersionKey
	var texts []string
	for i := 0; i < n; i++ {
		t := c07Inst(c07ReqTemplates[vParam("r"+c07D[i])], "r"+c07D[i])
		vObserveStr("req"+c07D[i], t)
		texts = append(texts, t)
		reqs = append(reqs, resolve.VersionKey{PackageKey: pk, VersionType: resolve.Requirement, Version: t})
	}
	r := &resolver{client: lc}
	got, err := r.findMatch(context.Background(), reqs)

	// Reference: the documented preference order, with the real constraint
	// matcher as the oracle for "satisfies".
	var hard []*semver.Constraint
	firstHard := -1
	var soft []string
	softBefore := 0
	parseOK := true
	for i, t := range texts {
		c, cerr := semver.Maven.ParseConstraint(t)
		if cerr != nil {
			parseOK = false
			break
		}
		if c.IsSimple() {
			soft = append(soft, t)
			continue
		}
		if firstHard == -1 {
			firstHard = i
			softBefore = len(soft)
		}
		hard = append(hard, c)
	}
	if !parseOK {
		vAssert(err != nil, "an unparsable requirement is an error")
		return
	}
	vCover(true, "requirements parsed")
	all := func(v string) bool {
		ok := true
		for _, c := range hard {
			ok = vAnd(ok, c.Match(v))
		}
		return ok
	}
	// a hard requirement that matches no listed version is an error
	for _, c := range hard {
		any := false
		for i, v := range listed {
			if vParam("listed")&(1<<uint(i)) != 0 {
				any = vOr(any, c.Match(v))
			}
		}
		if !any {
			vCover(true, "hard requirement without listed match")
			vAssert(err != nil && !errors.Is(err, errNoMatch), "a hard requirement matching no listed version is reported as its own error")
			return
		}
	}
	isListed := func(v string) bool {
		for i, l := range listed {
			if vParam("listed")&(1<<uint(i)) != 0 && l == v {
				return true
			}
		}
		return false
	}
	bestListed := ""
	for i := len(listed) - 1; i >= 0; i-- {
		if vParam("listed")&(1<<uint(i)) != 0 && all(listed[i]) {
			bestListed = listed[i]
			break
		}
	}
	want := ""
	wantMissing := false // the preferred soft version is not listed: the client's not-found error is returned
	decided := false
	for i, s := range soft {
		if firstHard != -1 && i == softBefore && bestListed != "" {
			want, decided = bestListed, true
			break
		}
		if all(s) {
			want, decided = s, true
			wantMissing = !isListed(s)
			break
		}
	}
	if !decided && firstHard != -1 && len(soft) == softBefore && bestListed != "" {
		want, decided = bestListed, true
	}
	if !decided {
		vCover(true, "no candidate")
		vAssert(errors.Is(err, errNoMatch), "no satisfying candidate is reported as errNoMatch")
		return
	}
	if wantMissing {
		vCover(true, "preferred soft version not listed")
		vAssert(errors.Is(err, resolve.ErrNotFound), "an unlisted preferred soft version is reported as not found")
		return
	}
	vCover(true, "match expected")
	vAssert(err == nil, "a satisfying candidate is found")
	if err == nil {
		vObserveStr("got", got.Version)
		vAssert(got.Version == want, "the first candidate in preference order that satisfies every hard requirement is chosen")
		vAssert(all(got.Version), "the chosen version satisfies every hard requirement")
	}
}

func VerifC07Exclusions() {
	// names "g:a" with symbolic letters; exclusion list of up to two entries from templates
	name := c07Name("n")
	tmpl := []string{"", "l:l", "l:*", "*:l", "*:*", "l:l|l:l", "l:l,*:l"}
	ex := c07ExInst(tmpl[vParam("te")], "e")
	vObserveStr("name", name)
	vObserveStr("excl", ex)
	m := parseExclusions(ex)
	r := &resolver{}
	got, err := r.isExcluded(m, resolve.VersionKey{PackageKey: resolve.PackageKey{System: resolve.Maven, Name: name}})
	vAssert(err == nil, "a group:artifact name is accepted")
	// reference: some entry equals the name, or group:* / *:artifact / *:*
	want := false
	if ex != "" {
		for _, e := range strings.FieldsFunc(ex, func(r rune) bool { return r == '|' || r == ',' }) {
			g, a := e[:1], e[2:]
			want = vOr(want, vAnd(vOr(g == "*", g == name[:1]), vOr(a == "*", a == name[2:])))
		}
	}
	vCover(want, "excluded")
	vCover(!want, "not excluded")
	vAssert(got == want, "an artifact is excluded exactly when an exclusion entry covers it")
	// merging adds, never removes
	base := map[string]bool{"x:y": true}
	mergeExclusions(base, m)
	got2, _ := r.isExcluded(base, resolve.VersionKey{PackageKey: resolve.PackageKey{System: resolve.Maven, Name: name}})
	vAssert(vImplies(want, got2), "merging exclusions keeps what was excluded")
}

func c07Name(tag string) string {
	b := vBytes(tag, 2)
	vAssume(vAnd(vAnd('a' <= b[0], b[0] <= 'c'), vAnd('a' <= b[1], b[1] <= 'c')))
	return string([]byte{b[0]}) + ":" + string([]byte{b[1]})
}

func c07ExInst(t, tag string) string {
	sym := vBytes(tag, len(t))
	out := ""
	for i := 0; i < len(t); i++ {
		b := sym[i]
		if t[i] == 'l' {
			vAssume(vAnd('a' <= b, b <= 'c'))
			out += string([]byte{b})
		} else {
			out += t[i : i+1]
		}
	}
	return out
}

func VerifC07Imports() {
	root := resolve.VersionKey{PackageKey: resolve.PackageKey{System: resolve.Maven, Name: "g:r"}, VersionType: resolve.Concrete, Version: "1"}
	var t dep.Type
	test, opt, prov, mgmt := vBool("test"), vBool("opt"), vBool("provided"), vBool("mgmt")
	if test {
		t.AddAttr(dep.Test, "")
	}
	if opt {
		t.AddAttr(dep.Opt, "")
	}
	if prov {
		t.AddAttr(dep.Scope, "provided")
	} else if vBool("runtime") {
		t.AddAttr(dep.Scope, "runtime")
	}
	if mgmt {
		t.AddAttr(dep.MavenDependencyOrigin, "management")
	}
	lc := resolve.NewLocalClient()
	lc.AddVersion(resolve.Version{VersionKey: root}, []resolve.RequirementVersion{
		{VersionKey: resolve.VersionKey{PackageKey: resolve.PackageKey{System: resolve.Maven, Name: "g:a"}, VersionType: resolve.Requirement, Version: "1"}, Type: t},
	})
	r := &resolver{client: lc}
	o := importsOpt(vParam("opt"))
	deps, err := r.imports(context.Background(), root, o)
	vAssert(err == nil, "imports succeeds")
	want := !mgmt
	if test && o&testImports == 0 {
		want = false
	}
	if opt && o&optImports == 0 {
		want = false
	}
	if prov && o&providedImports == 0 {
		want = false
	}
	vCover(want, "dependency followed")
	vCover(!want, "dependency skipped")
	vAssert((len(deps) == 1) == want, "test, optional and provided dependencies are followed only with the corresponding (root-only) option; managed entries never")
}

func VerifC07PackageKey() {
	r := &resolver{}
	mk := func(classifier, typ string, hasC, hasT bool) packageKey {
		var t dep.Type
		if hasC {
			t.AddAttr(dep.MavenClassifier, classifier)
		}
		if hasT {
			t.AddAttr(dep.MavenArtifactType, typ)
		}
		return r.packageKeyForDependency(resolve.RequirementVersion{
			VersionKey: resolve.VersionKey{PackageKey: resolve.PackageKey{System: resolve.Maven, Name: "g:a"}, VersionType: resolve.Requirement, Version: "1"}, Type: t})
	}
	c1, c2 := vBytes("c1", 1), vBytes("c2", 1)
	types := []string{"jar", "war", "pom", ""}
	t1, t2 := types[vParam("t1")], types[vParam("t2")]
	h1, h2 := vParam("t1") != 3, vParam("t2") != 3
	k1 := mk(c1, t1, true, h1)
	k2 := mk(c2, t2, true, h2)
	norm := func(t string) string {
		if t == "jar" {
			return ""
		}
		return t
	}
	same := vAnd(c1 == c2, norm(t1) == norm(t2))
	vCover(same, "same artifact")
	vCover(!same, "different artifact")
	vAssert((k1 == k2) == same, "artifacts are identified by group:artifact, classifier and type, with jar the default type")
}
