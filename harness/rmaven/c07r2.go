package maven

// C07, second generation of universes: up to four artifacts, two declaration
// slots per version and four on the root, classifier variants next to the
// kinds of the first generation. Version strings are concrete; the digits of
// the first few requirements are symbolic (job parameter "c" per slot).

import (
	"deps.dev/util/resolve"
	"deps.dev/util/resolve/dep"
)

var c07Names2 = []string{"g:a", "g:b", "g:c", "g:d"}
var c07N2 = [...]string{"0", "1", "2", "3", "4"}

func c07Req2(kind int, tag string, conc int) string {
	t := c07ReqKinds[kind]
	out := ""
	for i := 0; i < len(t); i++ {
		switch t[i] {
		case 'D', 'E':
			if conc != 0 {
				out += c07N2[conc]
				continue
			}
			b := vByte(tag + "." + t[i:i+1])
			vAssume(vAnd('1' <= b, b <= '3'))
			out += string([]byte{b})
		default:
			out += t[i : i+1]
		}
	}
	return out
}

func c07Slot2(tag string) (resolve.RequirementVersion, bool) {
	target := vParam(tag + "t")
	if target == 0 {
		return resolve.RequirementVersion{}, false
	}
	var t dep.Type
	switch vParam(tag + "k") {
	case 1:
		t.AddAttr(dep.Opt, "")
	case 2:
		t.AddAttr(dep.Test, "")
	case 3:
		t.AddAttr(dep.Scope, "provided")
	case 4:
		t.AddAttr(dep.MavenExclusions, c07Names2[vParam(tag+"x")%4])
	case 5:
		t.AddAttr(dep.MavenArtifactType, "war")
	case 6:
		t.AddAttr(dep.MavenClassifier, "tests")
	case 7:
		t.AddAttr(dep.MavenArtifactType, "jar") // the default type spelled out: the same artifact as without a type
	}
	return resolve.RequirementVersion{VersionKey: resolve.VersionKey{PackageKey: c07PK(c07Names2[target-1]), VersionType: resolve.Requirement,
		Version: c07Req2(vParam(tag+"r"), tag, vParam(tag+"c"))}, Type: t}, true
}

func c07Entries2() ([]c05Entry, resolve.VersionKey) {
	var out []c05Entry
	root := c07VK("g:r", "1.0")
	var rr []resolve.RequirementVersion
	for s := 0; s < 4; s++ {
		if r, ok := c07Slot2("r" + c07N2[s]); ok {
			rr = append(rr, r)
		}
	}
	if vParam("mgt") != 0 {
		var t dep.Type
		t.AddAttr(dep.MavenDependencyOrigin, "management")
		c07MgtReq = c07Req2(vParam("mgtr"), "mgt", vParam("mgtc"))
		rr = append(rr, resolve.RequirementVersion{VersionKey: resolve.VersionKey{PackageKey: c07PK(c07Names2[vParam("mgt")-1]), VersionType: resolve.Requirement, Version: c07MgtReq}, Type: t})
	}
	out = append(out, c05Entry{v: resolve.Version{VersionKey: root}, reqs: rr})
	for pi := 0; pi < vParam("np"); pi++ {
		for vi := 0; vi < vParam("nv"+c07N2[pi]); vi++ {
			tag := c07N2[pi] + c07N2[vi]
			v := c07N2[vParam("mj"+tag)] + ".0"
			var reqs []resolve.RequirementVersion
			for s := 0; s < 2; s++ {
				if r, ok := c07Slot2("p" + tag + "s" + c07N2[s]); ok {
					reqs = append(reqs, r)
				}
			}
			out = append(out, c05Entry{v: resolve.Version{VersionKey: c07VK(c07Names2[pi], v)}, reqs: reqs})
		}
	}
	return out, root
}

func VerifC07Resolve2() {
	es, root := c07Entries2()
	c07Run(c05Client(es, false), root)
}

func VerifC05Maven2() {
	es, root := c07Entries2()
	c05Purity(es, root, NewResolver)
}

func VerifC05MavenShared2() {
	es, root := c07Entries2()
	c05Shared(c05Client(es, false), root, es[1+vParam("alt")%(len(es)-1)].v.VersionKey, NewResolver, false)
}
