package resolve

// C04 for util/resolve/maven.go: dependency types whose attribute values come
// from outside text (schema files, API responses) are turned into Maven
// dependencies with a value or an error, never a panic.

import "deps.dev/util/resolve/dep"

func VerifC04MavenDepType() {
	var t dep.Type
	if vParam("opt") != 0 {
		t.AddAttr(dep.Opt, "")
	}
	if vParam("test") != 0 {
		t.AddAttr(dep.Test, "")
	}
	if n := vParam("scope"); n > 0 {
		t.AddAttr(dep.Scope, vBytes("sc", n))
	}
	if n := vParam("excl"); n >= 0 {
		t.AddAttr(dep.MavenExclusions, vBytes("ex", n))
	}
	if n := vParam("origin"); n > 0 {
		t.AddAttr(dep.MavenDependencyOrigin, vBytes("or", n))
	}
	d, o, err := MavenDepTypeToDependency(t)
	vObserveBool("ok", err == nil)
	if err != nil {
		vCover(true, "rejected")
		return
	}
	vCover(true, "accepted")
	vObserveInt("exclusions", len(d.Exclusions))
	back := MavenDepType(d, o)
	_ = back.String()
}
