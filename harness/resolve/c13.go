package resolve

// C13: Graph.Canon yields one representative per isomorphism class. The
// structure (node count, edge endpoints, error placement, the relabelling and
// the shuffles) comes from job parameters; every label (package name, version,
// requirement, error text, edge type) is symbolic over a two-letter alphabet
// so that duplicate versions arise.

import "deps.dev/util/resolve/dep"

var c13D = [...]string{"0", "1", "2", "3", "4", "5", "6", "7"}

type c13Labels struct {
	name, ver [5]string
	errs      [5]string
	errn1     [5]string
	errn2     [5]string
	nerr      [5]int
	ereq      [6]string
	edev      [6]bool
}

func c13Two(tag string) string {
	b := vByte(tag)
	vAssume(vOr(b == 'a', b == 'b'))
	return string([]byte{b})
}

func c13MakeLabels(n, e int) *c13Labels {
	l := &c13Labels{}
	for i := 0; i < n; i++ {
		l.name[i] = c13Two("name" + c13D[i])
		l.ver[i] = c13Two("ver" + c13D[i])
		l.nerr[i] = (vParam("errs") >> uint(i)) & 1
		l.errs[i] = c13Two("err" + c13D[i])
		if l.nerr[i] == 1 && vParam("err2") == 1 {
			l.errn1[i] = c13Two("errn1" + c13D[i])
			l.errn2[i] = c13Two("errn2" + c13D[i])
		}
	}
	for j := 0; j < e; j++ {
		l.ereq[j] = c13Two("req" + c13D[j])
		l.edev[j] = vBool("dev" + c13D[j])
	}
	return l
}

// c13Build builds the graph with node i placed at position pos[i] and the
// edges added in the order given by eorder.
func c13Build(n, e int, l *c13Labels, pos []int, eorder []int, errRev bool) *Graph {
	g := &Graph{}
	inv := make([]int, n)
	for i := 0; i < n; i++ {
		inv[pos[i]] = i
	}
	for p := 0; p < n; p++ {
		i := inv[p]
		id := g.AddNode(VersionKey{PackageKey: PackageKey{System: NPM, Name: l.name[i]}, VersionType: Concrete, Version: l.ver[i]})
		if l.nerr[i] == 1 {
			// one error, or two errors (on requirements named by symbolic letters) recorded in either order
			x := VersionKey{PackageKey: PackageKey{System: NPM, Name: "x"}, VersionType: Requirement, Version: "1"}
			if vParam("err2") == 1 {
				x.Name = l.errn1[i]
				y := VersionKey{PackageKey: PackageKey{System: NPM, Name: l.errn2[i]}, VersionType: Requirement, Version: "1"}
				if errRev {
					g.AddError(id, y, "e")
					g.AddError(id, x, l.errs[i])
				} else {
					g.AddError(id, x, l.errs[i])
					g.AddError(id, y, "e")
				}
			} else {
				g.AddError(id, x, l.errs[i])
			}
		}
	}
	for _, j := range eorder {
		from, to := vParam("f"+c13D[j]), vParam("t"+c13D[j])
		var t dep.Type
		if l.edev[j] {
			t.AddAttr(dep.Dev, "")
		}
		g.AddEdge(NodeID(pos[from]), NodeID(pos[to]), l.ereq[j], t)
	}
	return g
}

func c13SameGraph(a, b *Graph) bool {
	if len(a.Nodes) != len(b.Nodes) || len(a.Edges) != len(b.Edges) {
		return false
	}
	same := true
	for i := range a.Nodes {
		same = vAnd(same, a.Nodes[i].Compare(b.Nodes[i]) == 0)
	}
	for i := range a.Edges {
		ea, eb := a.Edges[i], b.Edges[i]
		same = vAnd(same, vAnd(ea.From == eb.From, ea.To == eb.To))
		same = vAnd(same, vAnd(ea.Requirement == eb.Requirement, ea.Type.Compare(eb.Type) == 0))
	}
	return same
}

// c13SameNode: the same version with the same errors, whatever order the (at most two) errors are recorded in.
func c13SameNode(a, b Node) bool {
	if len(a.Errors) != len(b.Errors) {
		return false
	}
	same := a.Version == b.Version
	switch len(a.Errors) {
	case 1:
		same = vAnd(same, a.Errors[0].Compare(b.Errors[0]) == 0)
	case 2:
		straight := vAnd(a.Errors[0].Compare(b.Errors[0]) == 0, a.Errors[1].Compare(b.Errors[1]) == 0)
		crossed := vAnd(a.Errors[0].Compare(b.Errors[1]) == 0, a.Errors[1].Compare(b.Errors[0]) == 0)
		same = vAnd(same, vOr(straight, crossed))
	}
	return same
}

func c13Perm(n, k int) []int {
	// k-th permutation of the non-root nodes 1..n-1 (root stays at 0)
	pos := make([]int, n)
	rest := []int{}
	for i := 1; i < n; i++ {
		rest = append(rest, i)
	}
	for i := 1; i < n; i++ {
		m := len(rest)
		idx := k % m
		k /= m
		pos[i] = rest[idx]
		rest = append(rest[:idx], rest[idx+1:]...)
	}
	return pos
}

func VerifC13Canon() {
	n, e := vParam("n"), vParam("e")
	l := c13MakeLabels(n, e)
	ident := make([]int, n)
	for i := range ident {
		ident[i] = i
	}
	fwd := make([]int, e)
	rev := make([]int, e)
	for j := 0; j < e; j++ {
		fwd[j] = j
		rev[j] = (j + vParam("rot")) % e
	}
	g1 := c13Build(n, e, l, ident, fwd, false)
	g2 := c13Build(n, e, l, c13Perm(n, vParam("perm")), rev, true)
	orig := c13Build(n, e, l, ident, fwd, false)
	err1 := g1.Canon()
	err2 := g2.Canon()
	vObserveBool("ok1", err1 == nil)
	vAssert((err1 == nil) == (err2 == nil), "canonicalising a renumbered, shuffled copy fails exactly when the original fails")
	if err1 != nil || err2 != nil {
		vCover(true, "canonicalisation refused")
		return
	}
	vCover(true, "canonicalised")
	vAssert(c13SameGraph(g1, g2), "isomorphic graphs canonicalise to identical graphs")
	vAssert(len(g1.Nodes) == n && len(g1.Edges) == e, "node and edge counts preserved")
	vAssert(c13SameNode(g1.Nodes[0], orig.Nodes[0]), "root preserved")
	// the multiset of nodes with their errors is preserved
	for _, cn := range g1.Nodes {
		c1, c2 := 0, 0
		for _, x := range g1.Nodes {
			c1 += vIteInt(c13SameNode(cn, x), 1, 0)
		}
		for _, x := range orig.Nodes {
			c2 += vIteInt(c13SameNode(cn, x), 1, 0)
		}
		vAssert(c1 == c2, "the multiset of nodes with their errors is preserved")
	}
	// every canonical edge is an original edge (by endpoint versions, requirement and type)
	for _, ce := range g1.Edges {
		found := false
		for _, oe := range orig.Edges {
			m := vAnd(c13SameNode(g1.Nodes[ce.From], orig.Nodes[oe.From]), c13SameNode(g1.Nodes[ce.To], orig.Nodes[oe.To]))
			m = vAnd(m, vAnd(ce.Requirement == oe.Requirement, ce.Type.Compare(oe.Type) == 0))
			found = vOr(found, m)
		}
		vAssert(found, "every edge preserved with its requirement and type")
	}
	// idempotent
	g3 := &Graph{Nodes: append([]Node(nil), g1.Nodes...), Edges: append([]Edge(nil), g1.Edges...)}
	err3 := g3.Canon()
	vAssert(err3 == nil, "canonicalising a canonical graph succeeds")
	if err3 == nil {
		vAssert(c13SameGraph(g1, g3), "canonicalising is idempotent")
	}
}
