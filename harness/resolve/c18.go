package resolve

// C18 (partial, sequential): the API-backed client's mapping of npm aliases
// and bundled packages, exercised directly on flattenNPMDeps and
// npmRequirements with symbolic names, requirements and bundle paths. The
// gRPC round trip and the goroutine-interleaving clauses are outside.

import (
	"context"
	"errors"

	pb "deps.dev/api/v3"
	"deps.dev/util/resolve/dep"
	"deps.dev/util/resolve/version"
)

var c18N = [...]string{"0", "1", "2", "3"}

func c18Chars(tag string, n int, withAt bool) string {
	s := vBytes(tag, n)
	for i := 0; i < n; i++ {
		b := s[i]
		ok := vOr(vOr(vAnd('a' <= b, b <= 'c'), vAnd('0' <= b, b <= '2')), vOr(b == '/', vOr(b == '.', b == '^')))
		if withAt {
			ok = vOr(ok, b == '@')
		}
		vAssume(ok)
	}
	return s
}

// VerifC18Alias: an aliased dependency (npm:name@range) becomes a requirement
// on the real name carrying the alias; scoped names keep their leading @.
func VerifC18Alias() {
	alias := c18Chars("alias", 1, false)
	body := c18Chars("body", vParam("n"), true)
	section := vParam("section")
	d := &pb.Requirements_NPM_Dependencies_Dependency{Name: alias, Requirement: "npm:" + body}
	deps := &pb.Requirements_NPM_Dependencies{}
	switch section {
	case 0:
		deps.Dependencies = append(deps.Dependencies, d)
	case 1:
		deps.DevDependencies = append(deps.DevDependencies, d)
	case 2:
		deps.OptionalDependencies = append(deps.OptionalDependencies, d)
	case 3:
		deps.PeerDependencies = append(deps.PeerDependencies, d)
	}
	vObserveStr("body", body)
	out := flattenNPMDeps(deps)
	vAssert(len(out) == 1, "one dependency entry gives one requirement")
	if len(out) != 1 {
		return
	}
	got := out[0]
	vObserveStr("name", got.Name)
	vObserveStr("req", got.Version)
	// reference: split at the last '@'
	last := -1
	for i := 0; i < len(body); i++ {
		if body[i] == '@' {
			last = i
		}
	}
	known, hasKnown := got.Type.GetAttr(dep.KnownAs)
	vAssert(hasKnown && known == alias, "the requirement carries the alias")
	if last >= 0 {
		vCover(true, "alias with a range")
		vCover(last > 0 && body[0] == '@', "scoped real name")
		vAssert(got.Name == body[:last], "the requirement is on the real name (text before the last @)")
		vAssert(got.Version == body[last+1:], "the requirement text is the range after the last @")
	} else {
		vCover(true, "alias without @")
	}
	switch section {
	case 1:
		vAssert(got.Type.HasAttr(dep.Dev), "a devDependency stays a dev requirement")
	case 2:
		vAssert(got.Type.HasAttr(dep.Opt), "an optionalDependency stays an optional requirement")
	case 3:
		s, _ := got.Type.GetAttr(dep.Scope)
		vAssert(s == "peer", "a peerDependency stays a peer requirement")
	}
	vAssert(got.System == NPM && got.VersionType == Requirement, "npm requirement version")
}

// VerifC18Bundles: every bundled package becomes a package with one concrete
// version that records what it derives from, is required by its bundling
// parent with a requirement matching exactly that version, and is reported
// consistently by all four client calls.
func VerifC18Bundles() {
	a := NewAPIClient(nil)
	ctx := context.Background()
	root := VersionKey{PackageKey: PackageKey{System: NPM, Name: "r"}, VersionType: Concrete, Version: "1.0.0"}
	nb := vParam("nb")
	reqs := &pb.Requirements_NPM{Dependencies: &pb.Requirements_NPM_Dependencies{}}
	names := make([]string, nb) // package names
	dirs := make([]string, nb)  // directory names: the alias when the bundle is installed under one
	vers := make([]string, nb)
	paths := make([]string, nb)
	parents := make([]int, nb) // index of the bundling parent, -1 = root
	for i := 0; i < nb; i++ {
		names[i] = c18Chars("bn"+c18N[i], 1, false)
		dirs[i] = names[i]
		if vParam("al"+c18N[i]) != 0 {
			dirs[i] = c18Chars("bd"+c18N[i], 1, false)
			vCover(true, "a bundle installed under an alias")
		}
		vb := vByte("bv" + c18N[i])
		vAssume(vAnd('1' <= vb, vb <= '3'))
		vers[i] = string([]byte{vb}) + ".0.0"
		parents[i] = vParam("par"+c18N[i]) - 1
		if parents[i] >= 0 {
			paths[i] = paths[parents[i]] + "/node_modules/" + dirs[i]
		} else {
			paths[i] = "node_modules/" + dirs[i]
		}
	}
	// distinct paths
	for i := 0; i < nb; i++ {
		for j := i + 1; j < nb; j++ {
			vAssume(paths[i] != paths[j])
		}
	}
	order := vParam("order") // listing order of the bundles in the response
	for k := 0; k < nb; k++ {
		i := k
		if order == 1 {
			i = nb - 1 - k
		}
		reqs.Bundled = append(reqs.Bundled, &pb.Requirements_NPM_Bundle{Path: paths[i], Name: names[i], Version: vers[i], Dependencies: &pb.Requirements_NPM_Dependencies{}})
	}
	rootDeps, err := a.npmRequirements(root, reqs)
	vAssert(err == nil, "a well-formed bundle tree is accepted")
	if err != nil {
		return
	}
	vCover(nb > 1, "several bundles")
	mangledOf := func(i int) string {
		segs := ""
		for j := i; j >= 0; j = parents[j] {
			if segs == "" {
				segs = dirs[j]
			} else {
				segs = dirs[j] + ">" + segs
			}
		}
		return "r>1.0.0>" + segs
	}
	for i := 0; i < nb; i++ {
		pk := PackageKey{System: NPM, Name: mangledOf(i)}
		vk := VersionKey{PackageKey: pk, VersionType: Concrete, Version: vers[i]}
		v, verr := a.Version(ctx, vk)
		vAssert(verr == nil, "a bundled package is found by Version")
		if verr != nil {
			continue
		}
		vAssert(v.VersionKey == vk, "the bundled package has the listed concrete version")
		df, _ := v.GetAttr(version.DerivedFrom)
		vAssert(df == names[i], "the bundled version records the package it derives from")
		vs, vserr := a.Versions(ctx, pk)
		vAssert(vserr == nil && len(vs) == 1 && vs[0].VersionKey == vk, "Versions lists exactly that one version")
		ms, merr := a.MatchingVersions(ctx, VersionKey{PackageKey: pk, VersionType: Requirement, Version: vers[i]})
		vAssert(merr == nil && len(ms) == 1 && ms[0].VersionKey == vk, "the requirement on the bundle matches exactly that version")
		// required by its bundling parent
		var preqs []RequirementVersion
		if parents[i] < 0 {
			preqs = rootDeps
		} else {
			ppk := PackageKey{System: NPM, Name: mangledOf(parents[i])}
			var perr error
			preqs, perr = a.Requirements(ctx, VersionKey{PackageKey: ppk, VersionType: Concrete, Version: vers[parents[i]]})
			vAssert(perr == nil, "the parent's requirements are available")
		}
		found := 0
		for _, rq := range preqs {
			if rq.PackageKey == pk {
				found++
				vAssert(rq.Version == vers[i] && rq.VersionType == Requirement, "the parent requires the bundle with a requirement naming its version")
			}
		}
		vAssert(found == 1, "the bundling parent requires the bundled package exactly once")
	}
	_, nferr := a.Version(ctx, VersionKey{PackageKey: PackageKey{System: NPM, Name: "r>1.0.0>zz"}, VersionType: Concrete, Version: "1.0.0"})
	vAssert(errors.Is(nferr, ErrNotFound), "an unknown bundle is not found")
}

// VerifC18Sections: a response with several dependencies spread over the four
// sections and bundleDependencies, some of them aliased. Every entry becomes
// exactly one requirement with its own name, range, section type and alias;
// no entry's alias leaks into another entry.
func VerifC18Sections() {
	nd := vParam("nd")
	deps := &pb.Requirements_NPM_Dependencies{}
	type want struct {
		name, req, alias string
		section          int
	}
	var wants []want
	for i := 0; i < nd; i++ {
		key := c18Chars("k"+c18N[i], 1, false)
		section := vParam("sec" + c18N[i])
		w := want{name: key, section: section}
		var d *pb.Requirements_NPM_Dependencies_Dependency
		if vParam("ali"+c18N[i]) != 0 {
			real := c18Chars("real"+c18N[i], 1, false)
			rng := c18Chars("rng"+c18N[i], 1, false)
			if vParam("scoped"+c18N[i]) != 0 {
				real = "@" + real + "/" + real
			}
			d = &pb.Requirements_NPM_Dependencies_Dependency{Name: key, Requirement: "npm:" + real + "@" + rng}
			w.name, w.req, w.alias = real, rng, key
		} else {
			rng := c18Chars("rng"+c18N[i], 1, false)
			d = &pb.Requirements_NPM_Dependencies_Dependency{Name: key, Requirement: rng}
			w.req = rng
		}
		switch section {
		case 0:
			deps.Dependencies = append(deps.Dependencies, d)
		case 1:
			deps.DevDependencies = append(deps.DevDependencies, d)
		case 2:
			deps.OptionalDependencies = append(deps.OptionalDependencies, d)
		case 3:
			deps.PeerDependencies = append(deps.PeerDependencies, d)
		}
		wants = append(wants, w)
	}
	nbd := vParam("nbd")
	for i := 0; i < nbd; i++ {
		n := c18Chars("bdep"+c18N[i], 1, false)
		deps.BundleDependencies = append(deps.BundleDependencies, n)
		wants = append(wants, want{name: n, req: "*", section: 4})
	}
	out := flattenNPMDeps(deps)
	vAssert(len(out) == len(wants), "every dependency entry gives exactly one requirement")
	if len(out) != len(wants) {
		return
	}
	is := func(got RequirementVersion, w want) bool {
		known, hasKnown := got.Type.GetAttr(dep.KnownAs)
		scope, _ := got.Type.GetAttr(dep.Scope)
		ok := vAnd(got.Name == w.name, got.Version == w.req)
		ok = vAnd(ok, vAnd(hasKnown == (w.alias != ""), known == w.alias))
		ok = vAnd(ok, got.Type.HasAttr(dep.Dev) == (w.section == 1))
		ok = vAnd(ok, got.Type.HasAttr(dep.Opt) == (w.section == 2))
		wantScope := ""
		if w.section == 3 {
			wantScope = "peer"
		} else if w.section == 4 {
			wantScope = "bundle"
		}
		return vAnd(ok, scope == wantScope)
	}
	// each expected requirement occurs as often in the output as in the expectation (the output is sorted)
	for _, w := range wants {
		c1, c2 := 0, 0
		for _, o := range wants {
			c1 += vIteInt(vAnd(vAnd(o.name == w.name, o.req == w.req), vAnd(o.alias == w.alias, o.section == w.section)), 1, 0)
		}
		for _, g := range out {
			c2 += vIteInt(is(g, w), 1, 0)
		}
		vAssert(c1 == c2, "each entry becomes one requirement with its own name, range, section and alias")
	}
	vCover(nd > 1, "several dependencies in one response")
}
