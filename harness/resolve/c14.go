package resolve

// C14: the in-memory client reports exactly what was last added. A history of
// AddVersion calls (keys given by the job parameters, so that repeated keys are
// explored deliberately; attributes, tags, deleted flags and requirement types
// symbolic) is compared with a map-based reference model.

import (
	"context"
	"errors"

	"deps.dev/util/resolve/dep"
	"deps.dev/util/resolve/version"
	"deps.dev/util/semver"
)

var c14Pkgs = [...]string{"p", "q", "r"}
var c14Vers = [...]string{"1.0.0", "1.1.0", "2.0.0-a", "0.9.0", "foo"}
var c14Tags = [...]string{"", "latest", "x"}
var c14Digits = [...]string{"0", "1", "2", "3", "4", "5"}

type c14Entry struct {
	attrs version.AttrSet
	reqs  []RequirementVersion
}

func VerifC14History() {
	sys := System(vParam("sys"))
	h := vParam("h")
	lc := NewLocalClient()
	ctx := context.Background()
	model := map[VersionKey]*c14Entry{}
	mentioned := map[PackageKey]bool{}
	for step := 0; step < h; step++ {
		tag := "s" + c14Digits[step]
		pk := PackageKey{System: sys, Name: c14Pkgs[vParam(tag+"p")]}
		vk := VersionKey{PackageKey: pk, VersionType: Concrete, Version: c14Vers[vParam(tag+"v")]}
		var attrs version.AttrSet
		if (step+vParam(tag+"v"))%2 == 1 { // a second attribute, so that attribute sets differ in more than the tag
			attrs.SetAttr(version.Blocked, "")
		}
		tsel := vByte(tag + ".tag") // no tag, the latest tag, or some other tag
		vAssume(tsel <= 2)
		if tsel != 0 {
			attrs.SetAttr(version.Tags, c14Tags[tsel])
		}
		deleted := false
		if vParam(tag+"d") == 1 {
			attrs.SetAttr(version.Deleted, "")
			deleted = true
		}
		var reqs []RequirementVersion
		nreq := vParam(tag + "n")
		for j := 0; j < nreq; j++ {
			rt := dep.Type{}
			if j == 0 && vBool(tag+".dev"+c14Digits[j]) {
				rt.AddAttr(dep.Dev, "")
			}
			target := PackageKey{System: sys, Name: c14Pkgs[(vParam(tag+"p")+1+j)%3]}
			reqs = append(reqs, RequirementVersion{
				VersionKey: VersionKey{PackageKey: target, VersionType: Requirement, Version: "1.0.0"},
				Type:       rt,
			})
		}
		// The reference keeps its own copies: AddVersion sorts deps in place.
		want := make([]RequirementVersion, len(reqs))
		copy(want, reqs)
		lc.AddVersion(Version{VersionKey: vk, AttrSet: attrs}, reqs)
		if vParam("midq") == 1 {
			// queries between the additions: whatever the client remembers of its answers must not outlive
			// the next addition
			for vi := 0; vi < len(c14Vers); vi++ {
				_, _ = lc.MatchingVersions(ctx, VersionKey{PackageKey: pk, VersionType: Requirement, Version: c14Vers[vi]})
			}
			_, _ = lc.Versions(ctx, pk)
			_, _ = lc.Requirements(ctx, vk)
		}
		if !deleted {
			SortDependencies(want)
			model[vk] = &c14Entry{attrs: attrs.Clone(), reqs: want}
			mentioned[pk] = true
			for _, r := range want {
				mentioned[r.PackageKey] = true
			}
		}
	}
	// Queries against the reference model.
	for pi := 0; pi < 3; pi++ {
		pk := PackageKey{System: sys, Name: c14Pkgs[pi]}
		vs, err := lc.Versions(ctx, pk)
		if !mentioned[pk] {
			vAssert(errors.Is(err, ErrNotFound), "a package never mentioned is not found")
			continue
		}
		vAssert(err == nil, "every mentioned package is known")
		count := 0
		for vi := 0; vi < len(c14Vers); vi++ {
			vk := VersionKey{PackageKey: pk, VersionType: Concrete, Version: c14Vers[vi]}
			got, err := lc.Version(ctx, vk)
			e, added := model[vk]
			if !added {
				vAssert(errors.Is(err, ErrNotFound), "a version never added is not found")
				_, rerr := lc.Requirements(ctx, vk)
				vAssert(errors.Is(rerr, ErrNotFound), "requirements of a version never added are not found")
				continue
			}
			count++
			vCover(true, "added version looked up")
			vAssert(err == nil, "an added version is found")
			vAssert(got.VersionKey == vk, "lookup returns the requested key")
			vAssert(got.AttrSet.Equal(e.attrs), "lookup returns the attributes of the most recent addition")
			occurrences := 0
			for _, x := range vs {
				if x.VersionKey == vk {
					occurrences++
					vAssert(x.AttrSet.Equal(e.attrs), "listing carries the attributes of the most recent addition")
				}
			}
			vAssert(occurrences == 1, "listing contains each added version exactly once")
			rs, rerr := lc.Requirements(ctx, vk)
			vAssert(rerr == nil, "requirements of an added version are found")
			vAssert(len(rs) == len(e.reqs), "requirements are those of the most recent addition (count)")
			if len(rs) == len(e.reqs) {
				for j := range rs {
					vAssert(rs[j].VersionKey == e.reqs[j].VersionKey && rs[j].Type.Equal(e.reqs[j].Type), "requirements are those of the most recent addition, in resolution order")
				}
			}
			ms, merr := lc.MatchingVersions(ctx, VersionKey{PackageKey: pk, VersionType: Requirement, Version: c14Vers[vi]})
			vAssert(merr == nil, "matching against a known package succeeds")
			found := false
			for _, m := range ms {
				if m.VersionKey == vk {
					found = true
					vAssert(m.AttrSet.Equal(e.attrs), "a matched version carries the attributes of the most recent addition")
				}
			}
			vAssert(found, "an exact requirement matches the added version")
		}
		vAssert(len(vs) == count, "listing contains nothing but the added versions")
		c14Order(sys, vs, vs)
	}
}

// c14Order: a listing is in ascending ecosystem order; for npm, versions that do not parse come after those that
// do, and the version tagged latest is moved last unless it is a prerelease while releases exist.
// all is the package's whole version list, which decides whether releases exist; vs is the listing judged (all of
// it, or the part matched by a requirement).
func c14Order(sys System, vs, all []Version) {
	semsys := sys.Semver()
	parsed := map[string]*semver.Version{}
	for _, l := range [][]Version{vs, all} {
		for _, v := range l {
			if _, done := parsed[v.Version]; !done {
				sv, err := semsys.Parse(v.Version)
				if err != nil {
					sv = nil
				}
				parsed[v.Version] = sv
			}
		}
	}
	less := func(a, b string) bool {
		pa, pb := parsed[a], parsed[b]
		if (pa != nil) != (pb != nil) {
			return pa != nil
		}
		if pa != nil {
			if c := pa.Compare(pb); c != 0 {
				return c < 0
			}
		}
		return a < b
	}
	if sys != NPM {
		for i := 0; i+1 < len(vs); i++ {
			vAssert(less(vs[i].Version, vs[i+1].Version), "listing is in ascending order")
		}
		return
	}
	// npm: at most one version carries the latest tag in a real package; histories with several are left alone
	nlatest, latest := 0, -1
	release, unparsable := false, false
	for i, v := range vs {
		if t, _ := v.GetAttr(version.Tags); t == "latest" {
			nlatest++
			latest = i
		}
	}
	for _, v := range all {
		if sv := parsed[v.Version]; sv == nil {
			unparsable = true
		} else if !sv.IsPrerelease() {
			release = true
		}
	}
	if nlatest > 1 {
		return
	}
	latestStays := false
	if latest >= 0 {
		if sv := parsed[vs[latest].Version]; sv != nil && sv.IsPrerelease() {
			if !release && unparsable {
				return // whether a version that does not parse counts as a release is not settled by the statement
			}
			latestStays = release
		}
	}
	vCover(latest >= 0 && !latestStays && len(vs) > 1, "latest-tagged version among several")
	for i := 0; i+1 < len(vs); i++ {
		if latest >= 0 && !latestStays {
			vAssert(i+1 != latest || latest == len(vs)-1, "npm listing: the version tagged latest comes last")
			if i == latest || i+1 == latest {
				continue
			}
		}
		vAssert(less(vs[i].Version, vs[i+1].Version), "listing is in ascending order")
	}
	if latest >= 0 && !latestStays {
		vAssert(latest == len(vs)-1, "npm listing: the version tagged latest comes last")
	}
}
