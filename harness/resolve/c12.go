package resolve

// C12: requirement matching over a version list is exact, ordered and
// independent of the order of the list.

import (
	"context"
	"strings"

	"deps.dev/util/resolve/version"
)

var c12VerTemplates = []string{"d.d.d", "d.d.d-l", "d.d", "zzz", "d.d.d-d", "d.d.d.d", "vd.d.d", "d.d.d+l", "d.5"}
var c12ReqTemplates = map[System][]string{
	NPM:   {"^d.d.d", ">=d.d.d", "d.d.d", "latest", "*", "<d.d.d", "~d.d", "zzz", "d.x", ">=d.d.d-l <d.d.d", ">=d.d.d-l", "next"},
	Maven: {"[d.d,d.d]", "d.d.d", "[d.d.d,)", "(,d.d.d)", "[d.d.d]", "[1.0,d.0),[d.0,9.0)", "(,d.1),(d.1,)"}, // the last two: unions of ranges with a gap
	PyPI:  {">=d.d", "==d.d.d", "<d.d.d", "!=d.d.d", "~=d.d", ""},
}

func c12Inst(t, tag string) string {
	sym := vBytes(tag, len(t))
	out := ""
	for i := 0; i < len(t); i++ {
		b := sym[i]
		switch t[i] {
		case 'd':
			vAssume(vAnd('0' <= b, b <= '9'))
			out += string([]byte{b})
		case 'l':
			vAssume(vAnd('a' <= b, b <= 'z'))
			out += string([]byte{b})
		default:
			out += t[i : i+1]
		}
	}
	return out
}

func c12Contains(vs []Version, v Version) bool {
	for _, x := range vs {
		if x.VersionKey == v.VersionKey {
			return true
		}
	}
	return false
}

func VerifC12Match() {
	sys := System(vParam("sys"))
	k := vParam("k")
	pk := PackageKey{System: sys, Name: "p"}
	vs := make([]Version, k)
	for i := 0; i < k; i++ {
		s := c12Inst(c12VerTemplates[vParam("vt"+c13D[i])], "v"+c13D[i])
		vObserveStr("v"+c13D[i], s)
		vs[i] = Version{VersionKey: VersionKey{PackageKey: pk, VersionType: Concrete, Version: s}}
		if vParam("latest") == i {
			vs[i].SetAttr(version.Tags, "latest")
		} else if vParam("next") == i {
			vs[i].SetAttr(version.Tags, "next,beta")
		}
	}
	if sys != NPM {
		// only npm lists may hold version strings that do not parse
		for i := 0; i < k; i++ {
			_, perr := sys.Semver().Parse(vs[i].Version)
			vAssume(perr == nil)
		}
	}
	// distinct version strings (a package lists each version once)
	for i := 0; i < k; i++ {
		for j := i + 1; j < k; j++ {
			vAssume(vs[i].Version != vs[j].Version)
		}
	}
	reqs := c12ReqTemplates[sys][vParam("rt")]
	rs := c12Inst(reqs, "r")
	vObserveStr("req", rs)
	req := VersionKey{PackageKey: pk, VersionType: Requirement, Version: rs}

	in1 := make([]Version, k)
	copy(in1, vs)
	res := MatchRequirement(req, in1)
	// a permuted copy: rotate by the job parameter and optionally reverse
	in2 := make([]Version, k)
	for i := 0; i < k; i++ {
		j := (i + vParam("rot")) % k
		if vParam("rev") == 1 {
			j = k - 1 - j
		}
		in2[j] = vs[i]
	}
	in2orig := make([]Version, k)
	copy(in2orig, in2)
	res2 := MatchRequirement(req, in2)
	vCover(len(res) > 0, "some version matched")
	vCover(len(res) < k, "some version rejected")
	vAssert(len(res) == len(res2), "the result size does not depend on the order of the list")
	if len(res) == len(res2) {
		for i := range res {
			vAssert(res[i].VersionKey == res2[i].VersionKey, "the result does not depend on the order of the list")
		}
	}
	// exact membership against the real constraint
	semsys := sys.Semver()
	c, cerr := semsys.ParseConstraint(rs)
	if cerr == nil {
		for i := 0; i < k; i++ {
			vAssert(c12Contains(res, vs[i]) == c.Match(vs[i].Version), "exactly the versions satisfying the requirement are returned")
		}
		// ascending order; npm: the version tagged latest is moved last unless it is a prerelease while the
		// list holds releases
		c14Order(sys, res, vs)
	} else if sys == NPM {
		// not a range: the version whose string or tag equals the requirement
		vAssert(len(res) <= 1, "a non-range npm requirement selects at most one version")
		for i := 0; i < k; i++ {
			tags, _ := vs[i].GetAttr(version.Tags)
			isTag := false
			for _, t := range strings.Split(tags, ",") {
				if t == rs {
					isTag = true
				}
			}
			if vs[i].Version == rs || isTag {
				vAssert(len(res) == 1, "a non-range npm requirement selects the version whose string or tag equals it")
			}
		}
		if len(res) == 1 {
			tags, _ := res[0].GetAttr(version.Tags)
			vAssert(res[0].Version == rs || strings.Contains(tags, rs), "the selected version carries the requested string or tag")
		}
	}
	if vParam("sortcheck") == 0 {
		return
	}
	// SortVersions: the same order for every order of the input, ascending, unparsable versions last
	s1 := make([]Version, k)
	copy(s1, vs)
	s2 := make([]Version, k)
	copy(s2, in2orig)
	SortVersions(s1)
	SortVersions(s2)
	for i := 0; i < k; i++ {
		vAssert(s1[i].VersionKey == s2[i].VersionKey, "SortVersions does not depend on the order of the list")
	}
	c14Order(sys, s1, s1)
	s3 := make([]Version, k)
	copy(s3, s1)
	SortVersions(s3)
	for i := 0; i < k; i++ {
		vAssert(s1[i].VersionKey == s3[i].VersionKey, "SortVersions is idempotent")
	}
}

// VerifC12ClientMatch: LocalClient.MatchingVersions answers from the client's current list. The same versions
// as in VerifC12Match are added to a client (in the permuted order), the requirement is asked, one version is
// added again with its tag changed (the latest tag moves), and the requirement is asked again: each answer
// equals MatchRequirement over the list the client holds at that moment, records included.
func VerifC12ClientMatch() {
	sys := System(vParam("sys"))
	k := vParam("k")
	ctx := context.Background()
	pk := PackageKey{System: sys, Name: "p"}
	vs := make([]Version, k)
	for i := 0; i < k; i++ {
		s := c12Inst(c12VerTemplates[vParam("vt"+c13D[i])], "v"+c13D[i])
		vObserveStr("v"+c13D[i], s)
		vs[i] = Version{VersionKey: VersionKey{PackageKey: pk, VersionType: Concrete, Version: s}}
		if vParam("latest") == i {
			vs[i].SetAttr(version.Tags, "latest")
		}
	}
	for i := 0; i < k; i++ {
		_, perr := sys.Semver().Parse(vs[i].Version)
		vAssume(perr == nil)
		for j := i + 1; j < k; j++ {
			vAssume(vs[i].Version != vs[j].Version)
		}
	}
	rs := c12Inst(c12ReqTemplates[sys][vParam("rt")], "r")
	vObserveStr("req", rs)
	req := VersionKey{PackageKey: pk, VersionType: Requirement, Version: rs}
	lc := NewLocalClient()
	for i := k - 1; i >= 0; i-- {
		lc.AddVersion(vs[i], nil)
	}
	same := func(what string) {
		got, err := lc.MatchingVersions(ctx, req)
		vAssert(err == nil, what+": matching against a known package succeeds")
		cur := make([]Version, k)
		copy(cur, vs)
		want := MatchRequirement(req, cur)
		vCover(len(want) > 0, "the client matched some version")
		vAssert(len(got) == len(want), what+": the client returns exactly the versions of its current list that satisfy the requirement")
		if len(got) == len(want) {
			for i := range got {
				vAssert(got[i].VersionKey == want[i].VersionKey, what+": the client returns them in ecosystem order")
				vAssert(got[i].AttrSet.Equal(want[i].AttrSet), what+": the client returns the records of its current list")
			}
		}
	}
	same("first answer")
	same("asked again")
	// the latest tag moves to another version; a version that had it loses it
	mv := vParam("move")
	for i := 0; i < k; i++ {
		had := vs[i].HasAttr(version.Tags)
		if i == mv || had {
			nv := Version{VersionKey: vs[i].VersionKey}
			if i == mv && !had {
				nv.SetAttr(version.Tags, "latest")
			} else if i == mv {
				nv.SetAttr(version.Blocked, "")
			}
			vs[i] = nv
			lc.AddVersion(nv, nil)
		}
	}
	vCover(true, "a version added again with other attributes")
	same("after a version was added again with other attributes")
}
