package maven

// C15 (partial): property interpolation terminates for every property table,
// leaves unresolved placeholders in place and reports them; precedence lemmas
// for property tables (child overrides parent, explicit properties win over the
// project.* built-ins).

var c15K = [...]string{"a", "b", "c", "d"}
var c15N = [...]string{"0", "1", "2", "3"}

// c15Text builds a text of nseg segments. Bit i of pattern says whether
// segment i is a placeholder ${k} (k a symbolic key among a, b, c and the
// absent d) or a literal letter (symbolic among x, y, z).
func c15Text(tag string, nseg, pattern int) string {
	out := ""
	for i := 0; i < nseg; i++ {
		b := vByte(tag + ".seg" + c15N[i])
		if pattern&(1<<uint(i)) != 0 {
			vAssume(vAnd('a' <= b, b <= 'd'))
			out += "${" + string([]byte{b}) + "}"
		} else {
			vAssume(vAnd('x' <= b, b <= 'z'))
			out += string([]byte{b})
		}
	}
	return out
}

func c15HasPlaceholder(s string) bool {
	for i := 0; i+1 < len(s); i++ {
		if s[i] == '$' && s[i+1] == '{' {
			for j := i + 2; j < len(s); j++ {
				if s[j] == '}' {
					return true
				}
			}
		}
	}
	return false
}

func VerifC15Interpolate() {
	nkeys := vParam("keys")
	dict := map[string]string{}
	for k := 0; k < nkeys; k++ {
		dict[c15K[k]] = c15Text("val"+c15N[k], vParam("vseg"), (vParam("vpat")>>uint(2*k))&3)
	}
	subject := c15Text("subj", vParam("sseg"), vParam("spat"))
	vObserveStr("subject", subject)
	res, ok := interpolating(subject, dict, map[string]bool{})
	vObserveStr("result", res)
	vObserveBool("ok", ok)
	vCover(ok, "fully resolved")
	vCover(!ok, "left unresolved")
	vAssert(ok == !c15HasPlaceholder(res), "interpolation reports failure exactly when a placeholder is left in the result")
	if !c15HasPlaceholder(subject) {
		vAssert(ok && res == subject, "text without placeholders is unchanged")
	}
	// the same through the String wrapper
	s := String(subject)
	ok2 := s.interpolate(dict)
	vAssert(ok2 == ok && string(s) == res, "String.interpolate is interpolating")
	// interpolating again changes nothing once everything is resolved
	if ok {
		res2, ok3 := interpolating(res, dict, map[string]bool{})
		vAssert(ok3 && res2 == res, "a resolved text is a fixed point")
	}
}

// VerifC15ArbitraryBytes: termination and no panic on arbitrary subject and value bytes.
func VerifC15ArbitraryBytes() {
	dict := map[string]string{"a": vBytes("va", vParam("vn")), "": vBytes("ve", 1)}
	subject := vBytes("s", vParam("n"))
	res, ok := interpolating(subject, dict, map[string]bool{})
	vCover(ok, "resolved")
	vCover(!ok, "unresolved")
	_ = res
}

func VerifC15PropertyPrecedence() {
	// child and parent each define key k (symbolic one-letter names), the project has a version
	kc, kp := vBytes("kc", 1), vBytes("kp", 1)
	child := Project{}
	child.Properties.Properties = []Property{{Name: kc, Value: "child"}}
	parent := Project{}
	parent.Properties.Properties = []Property{{Name: kp, Value: "parent"}}
	child.Properties.merge(parent.Properties)
	child.Version = String(vBytes("ver", 1))
	m, err := child.propertyMap()
	vAssert(err == nil, "propertyMap succeeds")
	vCover(kc == kp, "same key in child and parent")
	vAssert(m[kc] == "child", "a child's property overrides its parent's")
	if kp != kc {
		vAssert(m[kp] == "parent", "a parent's property is inherited")
	}
	vAssert(m["project.version"] == string(child.Version), "project.version is the project's version")
	// an explicit property named "version" is not overridden by the built-in
	child2 := Project{}
	child2.Version = "9"
	child2.Properties.Properties = []Property{{Name: "version", Value: "explicit"}}
	m2, _ := child2.propertyMap()
	vAssert(m2["version"] == "explicit" && m2["project.version"] == "9", "built-ins do not override explicit properties")
}
