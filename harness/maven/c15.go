package maven

// C15 (partial): property interpolation terminates for every property table,
// leaves unresolved placeholders in place and reports them; precedence lemmas
// for property tables (child overrides parent, explicit properties win over the
// project.* built-ins).

var c15K = [...]string{"a", "b", "c", "d"}
var c15N = [...]string{"0", "1", "2", "3"}

// c15Text builds a text of nseg segments. Bit i of pattern says whether
// segment i is a placeholder ${k} (k a symbolic key among a, b, c and the
// absent d) or a literal letter (symbolic among x, y, z).
func c15Text(tag string, nseg, pattern int) string {
	out := ""
	for i := 0; i < nseg; i++ {
		b := vByte(tag + ".seg" + c15N[i])
		if pattern&(1<<uint(i)) != 0 {
			vAssume(vAnd('a' <= b, b <= 'd'))
			out += "${" + string([]byte{b}) + "}"
		} else {
			vAssume(vAnd('x' <= b, b <= 'z'))
			out += string([]byte{b})
		}
	}
	return out
}

func c15HasPlaceholder(s string) bool {
	for i := 0; i+1 < len(s); i++ {
		if s[i] == '$' && s[i+1] == '{' {
			for j := i + 2; j < len(s); j++ {
				if s[j] == '}' {
					return true
				}
			}
		}
	}
	return false
}

func VerifC15Interpolate() {
	nkeys := vParam("keys")
	dict := map[string]string{}
	for k := 0; k < nkeys; k++ {
		dict[c15K[k]] = c15Text("val"+c15N[k], vParam("vseg"), (vParam("vpat")>>uint(2*k))&3)
	}
	subject := c15Text("subj", vParam("sseg"), vParam("spat"))
	vObserveStr("subject", subject)
	res, ok := interpolating(subject, dict, map[string]bool{})
	vObserveStr("result", res)
	vObserveBool("ok", ok)
	vCover(ok, "fully resolved")
	vCover(!ok, "left unresolved")
	vAssert(ok == !c15HasPlaceholder(res), "interpolation reports failure exactly when a placeholder is left in the result")
	if !c15HasPlaceholder(subject) {
		vAssert(ok && res == subject, "text without placeholders is unchanged")
	}
	// the same through the String wrapper
	s := String(subject)
	ok2 := s.interpolate(dict)
	vAssert(ok2 == ok && string(s) == res, "String.interpolate is interpolating")
	// interpolating again changes nothing once everything is resolved
	if ok {
		res2, ok3 := interpolating(res, dict, map[string]bool{})
		vAssert(ok3 && res2 == res, "a resolved text is a fixed point")
	}
}

// VerifC15ArbitraryBytes: termination and no panic on arbitrary subject and value bytes.
func VerifC15ArbitraryBytes() {
	dict := map[string]string{"a": vBytes("va", vParam("vn")), "": vBytes("ve", 1)}
	subject := vBytes("s", vParam("n"))
	res, ok := interpolating(subject, dict, map[string]bool{})
	vCover(ok, "resolved")
	vCover(!ok, "unresolved")
	_ = res
}

func VerifC15PropertyPrecedence() {
	// child and parent each define key k (symbolic one-letter names), the project has a version
	kc, kp := vBytes("kc", 1), vBytes("kp", 1)
	child := Project{}
	child.Properties.Properties = []Property{{Name: kc, Value: "child"}}
	parent := Project{}
	parent.Properties.Properties = []Property{{Name: kp, Value: "parent"}}
	child.Properties.merge(parent.Properties)
	child.Version = String(vBytes("ver", 1))
	m, err := child.propertyMap()
	vAssert(err == nil, "propertyMap succeeds")
	vCover(kc == kp, "same key in child and parent")
	vAssert(m[kc] == "child", "a child's property overrides its parent's")
	if kp != kc {
		vAssert(m[kp] == "parent", "a parent's property is inherited")
	}
	vAssert(m["project.version"] == string(child.Version), "project.version is the project's version")
	// an explicit property named "version" is not overridden by the built-in
	child2 := Project{}
	child2.Version = "9"
	child2.Properties.Properties = []Property{{Name: "version", Value: "explicit"}}
	m2, _ := child2.propertyMap()
	vAssert(m2["version"] == "explicit" && m2["project.version"] == "9", "built-ins do not override explicit properties")
}

// VerifC15BuiltinNames: an explicit property whose name is a built-in project property. Without prefix the
// explicit definition wins (the deprecated un-prefixed form); with the project. or pom. prefix the built-in
// is what ${...} refers to, whatever the properties table says, and the result reaches a dependency's version.
func VerifC15BuiltinNames() {
	names := []string{"version", "groupId", "project.version", "pom.version", "project.groupId", "pom.groupId",
		"parent.version", "project.parent.version", "project.parent.groupId", "pom.parent.version"}
	name := names[vParam("name")]
	p := Project{}
	p.GroupID = String(vBytes("g", 1))
	p.Version = String(vBytes("v", 1))
	p.Parent.GroupID = String(vBytes("pg", 1))
	p.Parent.Version = String(vBytes("pv", 1))
	vAssume(p.GroupID != "" && p.Version != "")
	explicit := vBytes("x", 1)
	parent := Project{}
	if vParam("where") == 0 {
		p.Properties.Properties = []Property{{Name: name, Value: explicit}}
	} else {
		parent.Properties.Properties = []Property{{Name: name, Value: explicit}} // inherited from an ancestor
	}
	p.Dependencies = []Dependency{{GroupID: "g", ArtifactID: "a", Version: String("${" + name + "}")}}
	p.MergeParent(parent)
	err := p.Interpolate()
	vAssert(err == nil, "interpolation succeeds")
	if err != nil {
		return
	}
	builtin := map[string]string{
		"version": string(p.Version), "groupId": string(p.GroupID),
		"parent.version": string(p.Parent.Version), "parent.groupId": string(p.Parent.GroupID),
	}
	want := explicit
	for _, prefix := range []string{"project.", "pom."} {
		if len(name) > len(prefix) && name[:len(prefix)] == prefix {
			want = builtin[name[len(prefix):]]
			vCover(true, "explicit property named like a prefixed built-in")
		}
	}
	vObserveStr("got", string(p.Dependencies[0].Version))
	vAssert(string(p.Dependencies[0].Version) == want, "a prefixed built-in is not shadowed by a property of that name; an un-prefixed one is")
}

// VerifC15ImportOrder: dependencyManagement imports are expanded depth-first in declaration order, first
// declaration of a key wins: what a BOM imports itself comes before the next BOM of the importing project.
func VerifC15ImportOrder() {
	v := func(tag string) String { return String(vBytes(tag, 1)) }
	p := Project{}
	p.Dependencies = []Dependency{{GroupID: "g", ArtifactID: "x"}}
	own := vParam("own") // the project manages x itself
	if own == 1 {
		p.DependencyManagement.Dependencies = append(p.DependencyManagement.Dependencies, Dependency{GroupID: "g", ArtifactID: "x", Version: v("own")})
	}
	p.DependencyManagement.Dependencies = append(p.DependencyManagement.Dependencies,
		Dependency{GroupID: "b", ArtifactID: "A", Version: "1", Type: "pom", Scope: "import"},
		Dependency{GroupID: "b", ArtifactID: "B", Version: "1", Type: "pom", Scope: "import"})
	// A manages x itself (param), and imports N, which manages x; B manages x
	aOwn, nHas, bHas := vParam("a"), vParam("n"), vParam("b")
	va, vn, vb := v("va"), v("vn"), v("vb")
	p.ProcessDependencies(func(g, a, ver String) (DependencyManagement, error) {
		switch a {
		case "A":
			var ds []Dependency
			ds = append(ds, Dependency{GroupID: "b", ArtifactID: "N", Version: "1", Type: "pom", Scope: "import"})
			if aOwn == 1 {
				ds = append(ds, Dependency{GroupID: "g", ArtifactID: "x", Version: va})
			}
			return DependencyManagement{Dependencies: ds}, nil
		case "N":
			if nHas == 1 {
				return DependencyManagement{Dependencies: []Dependency{{GroupID: "g", ArtifactID: "x", Version: vn}}}, nil
			}
		case "B":
			if bHas == 1 {
				return DependencyManagement{Dependencies: []Dependency{{GroupID: "g", ArtifactID: "x", Version: vb}}}, nil
			}
		}
		return DependencyManagement{}, nil
	})
	want := String("")
	switch {
	case own == 1:
		want = v("own")
	case aOwn == 1:
		want = va
	case nHas == 1:
		want = vn
	case bHas == 1:
		want = vb
	}
	vCover(own == 0 && aOwn == 0 && nHas == 1 && bHas == 1, "nested import against a later import")
	vAssert(len(p.Dependencies) == 1, "one dependency")
	if len(p.Dependencies) == 1 {
		vObserveStr("got", string(p.Dependencies[0].Version))
		vAssert(p.Dependencies[0].Version == want, "a version-less dependency takes the first managed version in depth-first import order")
	}
}

// VerifC15FillIn: dependency management fills in exactly the fields a dependency leaves empty: version, scope
// and exclusions, each on its own; what the dependency declares itself is kept.
func VerifC15FillIn() {
	v := func(tag string) String { return String(vBytes(tag, 1)) }
	own := Dependency{GroupID: "g", ArtifactID: "x"}
	if vParam("ver") == 1 {
		own.Version = v("ov")
		vAssume(own.Version != "")
	}
	if vParam("scope") == 1 {
		own.Scope = v("os")
		vAssume(own.Scope != "")
	}
	if vParam("excl") == 1 {
		own.Exclusions = []Exclusion{{GroupID: "e", ArtifactID: v("oe")}}
	}
	managed := Dependency{GroupID: "g", ArtifactID: "x", Version: v("mv"), Scope: v("ms"), Exclusions: []Exclusion{{GroupID: "m", ArtifactID: v("me")}}}
	vAssume(managed.Scope != "import")
	p := Project{}
	p.Dependencies = []Dependency{own}
	if vParam("where") == 0 {
		p.DependencyManagement.Dependencies = []Dependency{managed}
	} else {
		// managed by an imported BOM
		p.DependencyManagement.Dependencies = []Dependency{{GroupID: "b", ArtifactID: "A", Version: "1", Type: "pom", Scope: "import"}}
	}
	p.ProcessDependencies(func(g, a, ver String) (DependencyManagement, error) {
		if a == "A" {
			return DependencyManagement{Dependencies: []Dependency{managed}}, nil
		}
		return DependencyManagement{}, nil
	})
	vAssert(len(p.Dependencies) == 1, "one dependency")
	if len(p.Dependencies) != 1 {
		return
	}
	got := p.Dependencies[0]
	wantV, wantS := managed.Version, managed.Scope
	if own.Version != "" {
		wantV = own.Version
	}
	if own.Scope != "" {
		wantS = own.Scope
	}
	vAssert(got.Version == wantV, "the version is the dependency's own, else the managed one")
	vAssert(got.Scope == wantS, "the scope is the dependency's own, else the managed one")
	vAssert(len(got.Exclusions) == 1, "exclusions are the dependency's own, else the managed ones")
	if len(got.Exclusions) == 1 {
		if vParam("excl") == 1 {
			vAssert(got.Exclusions[0].GroupID == "e", "exclusions are the dependency's own, else the managed ones")
		} else {
			vCover(vParam("ver") == 1 && vParam("scope") == 1, "a fully specified dependency still takes managed exclusions")
			vAssert(got.Exclusions[0].GroupID == "m", "exclusions are the dependency's own, else the managed ones")
		}
	}
}

// VerifC15Profiles: profile activation by OS criteria and by default, and what MergeProfiles makes of it. Two
// profiles whose OS criteria come from a table (absent, matching in lower or upper case, not matching, negated
// matching, negated not matching), each optionally active by default; each brings one property "k" and one
// dependency. Reference: a profile with criteria is active when every stated criterion allows the fixed OS
// (comparison not case sensitive, a leading ! negates); a profile without criteria is never active; default
// profiles count only when no profile is active; active profiles contribute their dependencies after the
// project's own, in declaration order, and their properties over the project's, later profiles over earlier.
var c15OSVals = []string{"", "unix", "UNIX", "windows", "!unix", "!windows", "!Windows"}
var c15NameVals = []string{"", "linux", "Linux", "mac", "!linux", "!mac"}

func c15Allowed(crit, actual string) bool {
	if crit == "" {
		return true
	}
	neg := false
	if crit[0] == '!' {
		neg = true
		crit = crit[1:]
	}
	low := ""
	for i := 0; i < len(crit); i++ {
		c := crit[i]
		if 'A' <= c && c <= 'Z' {
			c += 'a' - 'A'
		}
		low += string([]byte{c})
	}
	return (low == actual) != neg
}

func VerifC15Profiles() {
	osv := OSProfileActivation
	var profs []Profile
	var wantActive, isDefault []bool
	for i := 0; i < 2; i++ {
		tag := "p" + c15N[i]
		fam, name := c15OSVals[vParam(tag+"f")], c15NameVals[vParam(tag+"n")]
		arch := ""
		if vParam(tag+"a") == 1 {
			arch = "amd64"
		} else if vParam(tag+"a") == 2 {
			arch = "!amd64"
		}
		pr := Profile{ID: String(tag)}
		pr.Activation.OS = ActivationOS{Family: String(fam), Name: String(name), Arch: String(arch)}
		def := vParam(tag+"d") == 1
		if def {
			pr.Activation.ActiveByDefault = "true"
		}
		pr.Properties.Properties = []Property{{Name: "k", Value: tag}}
		pr.Dependencies = []Dependency{{GroupID: "g", ArtifactID: String(tag), Version: "1"}}
		profs = append(profs, pr)
		has := fam != "" || name != "" || arch != ""
		wantActive = append(wantActive, has && c15Allowed(fam, string(osv.Family)) && c15Allowed(name, string(osv.Name)) && c15Allowed(arch, string(osv.Arch)))
		isDefault = append(isDefault, def)
	}
	p := Project{}
	p.Properties.Properties = []Property{{Name: "k", Value: "own"}}
	p.Dependencies = []Dependency{{GroupID: "g", ArtifactID: "own", Version: "1"}}
	p.Profiles = profs
	err := p.MergeProfiles(JDKProfileActivation, osv)
	vAssert(err == nil, "merging profiles with well-formed criteria succeeds")
	any := wantActive[0] || wantActive[1]
	want := []string{"own"}
	last := "own"
	for i := 0; i < 2; i++ {
		if wantActive[i] || (!any && isDefault[i]) {
			want = append(want, "p"+c15N[i])
			last = "p" + c15N[i]
		}
	}
	vCover(any, "a profile activated by its OS criteria")
	vCover(!any && (isDefault[0] || isDefault[1]), "default profiles used because no profile is active")
	vCover(any && (isDefault[0] && !wantActive[0] || isDefault[1] && !wantActive[1]), "a default profile left out because another profile is active")
	vAssert(len(p.Dependencies) == len(want), "the dependencies are the project's own followed by those of the active profiles")
	if len(p.Dependencies) == len(want) {
		for i := range want {
			vAssert(string(p.Dependencies[i].ArtifactID) == want[i], "the dependencies are the project's own followed by those of the active profiles, in declaration order")
		}
	}
	m, merr := p.propertyMap()
	vAssert(merr == nil, "the property table is built")
	if merr == nil {
		vAssert(m["k"] == last, "a property of an active profile overrides the project's, a later profile an earlier one")
	}
}

// VerifC15JDKProfile: activation by a plain <jdk> value. Maven activates such a profile when the running JDK's
// version starts with the value; taken component-wise (so that the digit-prefix quirk "1" vs "11" is left out):
// a value that is a dotted prefix of the JDK version (also the whole of it) activates, a value that differs
// from the JDK version in its first or second component does not. The JDK version has three to five components
// (11.0.8, 11.0.8.1, 1.8.0_292 spelt 1.8.0.292); the digits are symbolic.
func VerifC15JDKProfile() {
	n := vParam("n")   // components of the running JDK version
	k := vParam("k")   // components of the profile's value
	dif := vParam("d") // 0: the value is a prefix; 1/2: it differs in that component (1-based)
	comp := func(tag string) string {
		b := vByte(tag)
		vAssume(vAnd('0' <= b, b <= '9'))
		return string([]byte{b})
	}
	jdk, val := "", ""
	for i := 0; i < n; i++ {
		c := comp("j" + c15N[i%4] + c15N[i/4])
		if i == 0 {
			vAssume(c != "0")
		}
		if i == 1 && k == 1 && dif == 0 && vParam("kf_c15_jdk_major_only") == 1 {
			// open finding: a one-component value against a JDK version whose second component is not 0
			vAssume(c == "0")
		}
		if i > 0 {
			jdk += "."
		}
		jdk += c
		if i < k {
			if i > 0 {
				val += "."
			}
			if dif == i+1 {
				o := comp("o" + c15N[i%4])
				vAssume(o != c)
				if i == 0 {
					vAssume(o != "0")
				}
				val += o
			} else {
				val += c
			}
		}
	}
	vObserveStr("jdk", jdk)
	vObserveStr("value", val)
	pr := Profile{ID: "j"}
	pr.Activation.JDK = String(val)
	pr.Dependencies = []Dependency{{GroupID: "g", ArtifactID: "j", Version: "1"}}
	def := Profile{ID: "d"}
	def.Activation.ActiveByDefault = "true"
	def.Dependencies = []Dependency{{GroupID: "g", ArtifactID: "d", Version: "1"}}
	p := Project{Profiles: []Profile{pr, def}}
	err := p.MergeProfiles(jdk, ActivationOS{})
	vAssert(err == nil, "merging profiles with a well-formed jdk value succeeds")
	if err != nil || len(p.Dependencies) != 1 {
		vAssert(len(p.Dependencies) == 1, "exactly one of the jdk profile and the default profile is merged")
		return
	}
	got := string(p.Dependencies[0].ArtifactID)
	if dif == 0 {
		vCover(true, "a jdk value that is a prefix of the JDK version")
		vAssert(got == "j", "a profile whose jdk value is a dotted prefix of the JDK version is active")
	} else {
		vCover(true, "a jdk value that differs in its major or minor component")
		vAssert(got == "d", "a profile whose jdk value differs from the JDK version in its first or second component is not active")
	}
}
