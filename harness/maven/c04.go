package maven

// C04 for util/maven: profile activation on arbitrary JDK requirement and JDK
// version strings, project keys, whole-project interpolation and dependency
// processing on projects whose string fields are arbitrary bytes.

func VerifC04ProfileActivation() {
	p := Profile{}
	p.Activation.JDK = String(vBytes("jdk", vParam("n")))
	if vParam("os") != 0 {
		p.Activation.OS.Family = String(vBytes("fam", 1))
		p.Activation.OS.Name = String(vBytes("osn", 2))
	}
	if vParam("prop") != 0 {
		p.Activation.Property.Name = String(vBytes("pn", 1))
		p.Activation.Property.Value = String(vBytes("pv", 1))
	}
	ok, err := p.activated(vBytes("have", vParam("m")), OSProfileActivation)
	vObserveBool("ok", err == nil)
	vObserveBool("active", ok)
	if err == nil {
		vCover(true, "accepted")
	} else {
		vCover(true, "rejected")
	}
	// through MergeProfiles as well
	proj := Project{Profiles: []Profile{p}}
	_ = proj.MergeProfiles(vBytes("have", vParam("m")), OSProfileActivation)
}

func VerifC04ProjectKey() {
	k, err := MakeProjectKey(vBytes("name", vParam("n")), vBytes("ver", 1))
	if err == nil {
		vCover(true, "accepted")
		_ = k.Name()
	} else {
		vCover(true, "rejected")
	}
}

// VerifC04ProjectPipeline: a project with a parent, properties, dependencies and managed dependencies whose
// texts are arbitrary bytes goes through MergeParent, Interpolate and ProcessDependencies.
func VerifC04ProjectPipeline() {
	n := vParam("n")
	child := Project{}
	child.GroupID = String(vBytes("g", n))
	child.ArtifactID = "a"
	child.Version = String(vBytes("v", n))
	child.Properties.Properties = []Property{{Name: vBytes("pk", 1), Value: vBytes("pv", n)}}
	child.Dependencies = []Dependency{
		{GroupID: String(vBytes("dg", n)), ArtifactID: "x", Version: String(vBytes("dv", n)), Scope: String(vBytes("ds", 1))},
		{GroupID: "g", ArtifactID: "x", Type: String(vBytes("dt", 1))},
	}
	child.DependencyManagement.Dependencies = []Dependency{
		{GroupID: "g", ArtifactID: "x", Version: String(vBytes("mv", n)), Scope: String(vBytes("ms", 1)), Type: String(vBytes("mt", 1))},
	}
	parent := Project{}
	parent.GroupID = "pg"
	parent.Version = String(vBytes("ppv", 1))
	parent.Properties.Properties = []Property{{Name: vBytes("ppk", 1), Value: vBytes("ppv2", n)}}
	child.MergeParent(parent)
	err := child.Interpolate()
	vObserveBool("ok", err == nil)
	if err == nil {
		vCover(true, "accepted")
	} else {
		vCover(true, "rejected")
	}
	calls := 0
	child.ProcessDependencies(func(g, a, v String) (DependencyManagement, error) {
		calls++
		// an import that imports itself: the loop must end by itself
		return DependencyManagement{Dependencies: []Dependency{{GroupID: g, ArtifactID: a, Version: v, Type: "pom", Scope: "import"}}}, nil
	})
	vObserveInt("deps", len(child.Dependencies))
}
