package semver

// C01 for the systems whose comparison runs on a parsed extension (Maven,
// PyPI, RubyGems): versions are built from template strings through the real
// parser. In a template 'd' is a symbolic digit, 'l' a symbolic lower-case
// letter, 'L' a symbolic letter of either case; every other byte is literal.

var c01Templates = map[System][]string{
	Maven: {
		"d", "d.d", "d.dd", "d.d.d", // numeric prefixes (dd admits leading zeros)
		"d.d-ll", "d.d-lld", "d.dld", "d.d.ll", // two-letter qualifiers: rc cr ga sp + unknown; shortcuts a/b/m before a digit
		"d.d-lllll", "d.d-llllld", "d.d-lllll-dd", // alpha final + unknown
		"d-SNAPSHOT", "d.d-ll-SNAPSHOT", "d.d-llll", "d.d-lllllll", "d.d-lllllllll", // beta, release, milestone
		"dd", "d-d", "d.d-l", "d.d.d-ld",
	},
	PyPI: {
		"d", "d.d", "d.d.d", "dd.d", "d!d.d",
		"d.dld", "d.d.ld", "d.dlld", "d.dL", "d.d-lld", // pre-release spellings a b c rc (and invalid ones, rejected)
		"d.d.postd", "d.d-d", "d.drd", "d.d.devd", "d.dldpostd", "d.dld.devd", "d.d.postd.devd",
		"d.d+l", "d.d+d", "d.d+l.d", "d.d+L", "d.dld+l",
		"vd.d", "d.d.d.d",
	},
	RubyGems: {
		"d", "d.d", "d.d.d", "d.d.d.d", "dd.d",
		"d.d.l", "d.d.ld", "d.d.l.d", "d.d-l", "d.d.ldd", "d.d.l.l", "d.d.l.d.l", "d.d.d.l", "d.dl", "d.d.ll",
		"d.d.ldd.l", "d.d.L",
	},
}

func c01FromTemplate(sys System, tag string, tid int) string {
	return c01FromTemplateList(c01Templates[sys][tid], tag)
}

// c01FromTemplateList instantiates one template string.
func c01FromTemplateList(t string, tag string) string {
	sym := vBytes(tag, len(t))
	out := ""
	for i := 0; i < len(t); i++ {
		b := sym[i]
		switch t[i] {
		case 'd':
			vAssume(vAnd('0' <= b, b <= '9'))
			out += string([]byte{b})
		case 'l':
			vAssume(vAnd('a' <= b, b <= 'z'))
			out += string([]byte{b})
		case 'L':
			vAssume(vOr(vAnd('a' <= b, b <= 'z'), vAnd('A' <= b, b <= 'Z')))
			out += string([]byte{b})
		default:
			out += t[i : i+1]
		}
	}
	return out
}

func VerifC01ExtLaws() {
	sys := System(vParam("sys"))
	sa := c01FromTemplate(sys, "a", vParam("ta"))
	sb := c01FromTemplate(sys, "b", vParam("tb"))
	sc := c01FromTemplate(sys, "c", vParam("tc"))
	vObserveStr("sa", sa)
	vObserveStr("sb", sb)
	vObserveStr("sc", sc)
	if sys == Maven && vParam("kf_c01_maven_zero_dot_qualifier") == 1 {
		// open finding (Maven 3.6 rules, reproduced faithfully): a zero component is trimmed before a
		// '-' but not before a '.'-joined qualifier, which makes 1.0 < 1.0-pc < 1.0.cr < 1.0
		for _, s := range []string{sa, sb, sc} {
			for i := 0; i+2 < len(s); i++ {
				zero := vAnd(s[i] == '0', s[i+1] == '.')
				letter := vAnd('a' <= s[i+2], s[i+2] <= 'z')
				if i == 0 || s[i-1] == '.' {
					vAssume(vNot(vAnd(zero, letter)))
				}
			}
		}
	}
	a, err := sys.Parse(sa)
	if err != nil {
		return
	}
	b, err := sys.Parse(sb)
	if err != nil {
		return
	}
	c, err := sys.Parse(sc)
	if err != nil {
		return
	}
	vCover(true, "three versions parsed")
	ab, ba := compare(a, b), compare(b, a)
	bc, ac := compare(b, c), compare(a, c)
	vObserveInt("ab", vSign(ab))
	vObserveInt("bc", vSign(bc))
	vObserveInt("ac", vSign(ac))
	vCover(vAnd(ab < 0, bc < 0), "strict chain")
	vAssert(compare(a, a) == 0, "reflexive (same pointer)")
	a2, err := sys.Parse(sa)
	if err == nil {
		vAssert(compare(a, a2) == 0, "reflexive (equal copy)")
	}
	vAssert(vSign(ba) == -vSign(ab), "sign-antisymmetric")
	vAssert(vImplies(vAnd(ab <= 0, bc <= 0), ac <= 0), "transitive")
	vAssert(vImplies(ab == 0, vSign(ac) == vSign(bc)), "equal versions compare identically against a third")
	vAssert(sys.Compare(sa, sb) == ab, "System.Compare is compare of the parses")
}

// VerifC01History: comparison never depends on the history of earlier calls:
// the same System.Compare call gives the same answer before and after calls in
// other systems on the same strings (a cache keyed too coarsely shows here).
func VerifC01History() {
	sysA, sysB := System(vParam("sysa")), System(vParam("sysb"))
	a := c01HistString("a", vParam("ta"))
	b := c01HistString("b", vParam("tb"))
	vObserveStr("a", a)
	vObserveStr("b", b)
	wantB := c01ExpectCompare(sysB, a, b)
	wantA := c01ExpectCompare(sysA, a, b)
	first := sysB.Compare(a, b)
	vAssert(first == wantB, "System.Compare follows its contract (first call)")
	// the very next call, same strings, another system
	next := sysA.Compare(a, b)
	vAssert(next == wantA, "a comparison is not affected by the preceding call in another system")
	again := sysB.Compare(a, b)
	vAssert(again == first, "the same comparison gives the same answer after calls in another system")
	// one operand repeated in the same position, the other new
	c := c01HistString("c", vParam("tb"))
	mixed := sysA.Compare(a, c)
	vAssert(mixed == c01ExpectCompare(sysA, a, c), "a comparison sharing one operand with the preceding call in another system is not affected")
}

// c01ExpectCompare: the documented contract of System.Compare over fresh parses.
func c01ExpectCompare(sys System, a, b string) int {
	va, erra := sys.Parse(a)
	vb, errb := sys.Parse(b)
	switch {
	case erra == nil && errb != nil:
		return 1
	case erra != nil && errb == nil:
		return -1
	case erra != nil || errb != nil:
		return 0
	}
	vCover(true, "both parse")
	return compare(va, vb)
}

var c01HistTemplates = []string{"d.d.d", "d.d.d-dd", "d.d.d-l", "vd.d.d", "d.d", "d.d.d-ld"}

func c01HistString(tag string, tid int) string {
	t := c01HistTemplates[tid]
	sym := vBytes(tag, len(t))
	out := ""
	for i := 0; i < len(t); i++ {
		b := sym[i]
		switch t[i] {
		case 'd':
			vAssume(vAnd('0' <= b, b <= '9'))
			out += string([]byte{b})
		case 'l':
			vAssume(vAnd('a' <= b, b <= 'z'))
			out += string([]byte{b})
		default:
			out += t[i : i+1]
		}
	}
	return out
}
