package semver

// C01 for the systems whose comparison runs on a parsed extension (Maven,
// PyPI, RubyGems): versions are built from template strings through the real
// parser. In a template 'd' is a symbolic digit, 'l' a symbolic lower-case
// letter, 'L' a symbolic letter of either case; every other byte is literal.

var c01Templates = map[System][]string{
	Maven: {
		"d", "d.d", "d.dd", "d.d.d", // numeric prefixes (dd admits leading zeros)
		"d.d-ll", "d.d-lld", "d.dld", "d.d.ll", // two-letter qualifiers: rc cr ga sp + unknown; shortcuts a/b/m before a digit
		"d.d-lllll", "d.d-llllld", "d.d-lllll-dd", // alpha final + unknown
		"d-SNAPSHOT", "d.d-ll-SNAPSHOT", "d.d-llll", "d.d-lllllll", "d.d-lllllllll", // beta, release, milestone
		"dd", "d-d", "d.d-l", "d.d.d-ld",
	},
	PyPI: {
		"d", "d.d", "d.d.d", "dd.d", "d!d.d",
		"d.dld", "d.d.ld", "d.dlld", "d.dL", "d.d-lld", // pre-release spellings a b c rc (and invalid ones, rejected)
		"d.d.postd", "d.d-d", "d.drd", "d.d.devd", "d.dldpostd", "d.dld.devd", "d.d.postd.devd",
		"d.d+l", "d.d+d", "d.d+l.d", "d.d+L", "d.dld+l",
		"vd.d", "d.d.d.d",
	},
	RubyGems: {
		"d", "d.d", "d.d.d", "d.d.d.d", "dd.d",
		"d.d.l", "d.d.ld", "d.d.l.d", "d.d-l", "d.d.ldd", "d.d.l.l", "d.d.l.d.l", "d.d.d.l", "d.dl", "d.d.ll",
		"d.d.ldd.l", "d.d.L",
	},
}

func c01FromTemplate(sys System, tag string, tid int) string {
	t := c01Templates[sys][tid]
	sym := vBytes(tag, len(t))
	out := ""
	for i := 0; i < len(t); i++ {
		b := sym[i]
		switch t[i] {
		case 'd':
			vAssume(vAnd('0' <= b, b <= '9'))
			out += string([]byte{b})
		case 'l':
			vAssume(vAnd('a' <= b, b <= 'z'))
			out += string([]byte{b})
		case 'L':
			vAssume(vOr(vAnd('a' <= b, b <= 'z'), vAnd('A' <= b, b <= 'Z')))
			out += string([]byte{b})
		default:
			out += t[i : i+1]
		}
	}
	return out
}

func VerifC01ExtLaws() {
	sys := System(vParam("sys"))
	sa := c01FromTemplate(sys, "a", vParam("ta"))
	sb := c01FromTemplate(sys, "b", vParam("tb"))
	sc := c01FromTemplate(sys, "c", vParam("tc"))
	vObserveStr("sa", sa)
	vObserveStr("sb", sb)
	vObserveStr("sc", sc)
	a, err := sys.Parse(sa)
	if err != nil {
		return
	}
	b, err := sys.Parse(sb)
	if err != nil {
		return
	}
	c, err := sys.Parse(sc)
	if err != nil {
		return
	}
	vCover(true, "three versions parsed")
	ab, ba := compare(a, b), compare(b, a)
	bc, ac := compare(b, c), compare(a, c)
	vObserveInt("ab", vSign(ab))
	vObserveInt("bc", vSign(bc))
	vObserveInt("ac", vSign(ac))
	vCover(vAnd(ab < 0, bc < 0), "strict chain")
	vAssert(compare(a, a) == 0, "reflexive (same pointer)")
	a2, err := sys.Parse(sa)
	if err == nil {
		vAssert(compare(a, a2) == 0, "reflexive (equal copy)")
	}
	vAssert(vSign(ba) == -vSign(ab), "sign-antisymmetric")
	vAssert(vImplies(vAnd(ab <= 0, bc <= 0), ac <= 0), "transitive")
	vAssert(vImplies(ab == 0, vSign(ac) == vSign(bc)), "equal versions compare identically against a third")
	vAssert(sys.Compare(sa, sb) == ab, "System.Compare is compare of the parses")
}
