package semver

// C03: constraint matching agrees with each ecosystem's documented semantics.
// Requirements are built from structured templates (operator, number of
// components, optional prerelease letter) with symbolic digits; the oracle
// works on the same fields and never on the library's parse: node-semver's
// desugaring of every comparator to primitive bounds plus its prerelease
// admission rule (npm), PEP 440 specifier clauses on final releases (PyPI),
// and Maven's VersionRange.

// ---- a tiny version model: (major, minor, patch, pre) with pre 0 = "-0"
// (below every prerelease), 1..26 = a single letter a..z, 100 = release.

type c03V struct{ M, m, p, pre int }

func c03Cmp(a, b c03V) int {
	c := vIteInt(a.pre < b.pre, -1, vIteInt(a.pre > b.pre, 1, 0))
	c = vIteInt(a.p < b.p, -1, vIteInt(a.p > b.p, 1, c))
	c = vIteInt(a.m < b.m, -1, vIteInt(a.m > b.m, 1, c))
	c = vIteInt(a.M < b.M, -1, vIteInt(a.M > b.M, 1, c))
	return c
}

type c03Prim struct {
	op string // ">=", ">", "<", "<=", "=", "any", "none"
	v  c03V
	// userPre: the bound carries a prerelease the user wrote (admits prereleases of its tuple)
	userPre bool
}

func c03Sat(v c03V, p c03Prim) bool {
	c := c03Cmp(v, p.v)
	switch p.op {
	case ">=":
		return c >= 0
	case ">":
		return c > 0
	case "<":
		return c < 0
	case "<=":
		return c <= 0
	case "=":
		return c == 0
	case "any":
		return true
	}
	return false
}

// c03MatchSet: node-semver's testSet without includePrerelease.
func c03MatchSet(v c03V, prims []c03Prim) bool {
	ok := true
	for _, p := range prims {
		ok = vAnd(ok, c03Sat(v, p))
	}
	allowed := false
	for _, p := range prims {
		if p.userPre {
			allowed = vOr(allowed, vAnd(vAnd(p.v.M == v.M, p.v.m == v.m), p.v.p == v.p))
		}
	}
	return vAnd(ok, vOr(v.pre == 100, allowed))
}

var c03Dg = [...]string{"0", "1", "2", "3", "4", "5", "6", "7"}

func c03Digit(tag string) (int, string) {
	b := vByte(tag)
	vAssume(vAnd('0' <= b, b <= '9'))
	return int(b - '0'), string([]byte{b})
}

func c03Letter(tag string) (int, string) {
	b := vByte(tag)
	vAssume(vAnd('a' <= b, b <= 'z'))
	return int(b-'a') + 1, string([]byte{b})
}

// c03Partial builds "M", "M.m", "M.m.p" or "M.m.p-l" and returns text and fields.
func c03Partial(tag string, ncomp int, pre bool) (string, c03V, int) {
	M, sM := c03Digit(tag + ".M")
	v := c03V{M: M, pre: 100}
	s := sM
	if ncomp >= 2 {
		m, sm := c03Digit(tag + ".m")
		v.m = m
		s += "." + sm
	}
	if ncomp >= 3 {
		p, sp := c03Digit(tag + ".p")
		v.p = p
		s += "." + sp
	}
	if pre && ncomp == 3 {
		l, sl := c03Letter(tag + ".l")
		v.pre = l
		s += "-" + sl
	}
	return s, v, ncomp
}

var c03NpmOps = []string{"", "=", ">", ">=", "<", "<=", "^", "~", "~>"}

// c03NpmComparator: text of one comparator and its primitive bounds (node-semver 7, Appendix A).
var c03LtZero bool // some comparator of the current requirement is '<' on an all-zero version without prerelease

// c03OpOverride / c03XSpelling let the Cargo harness reuse the desugaring: same bounds, Cargo's spelling.
var c03OpOverride = ""
var c03XSpelling = ".x"

func c03NpmComparator(tag string) (string, []c03Prim) {
	op := c03NpmOps[vParam(tag+"op")]
	if c03OpOverride != "" {
		op = c03OpOverride
	}
	ncomp := vParam(tag + "n")
	pre := vParam(tag+"pre") == 1
	if ncomp == 0 { // "*"
		return op + "*", c03Star(op)
	}
	txt, v, n := c03Partial(tag, ncomp, pre)
	if vParam(tag+"x") == 1 && n < 3 { // explicit x-range spelling
		txt += c03XSpelling
	}
	up := pre && n == 3
	lo := c03Prim{op: ">=", v: v, userPre: up}
	zero := func(x c03V) c03V { x.pre = 0; return x }
	nextMinor := c03V{M: v.M, m: v.m + 1, pre: 0}
	nextMajor := c03V{M: v.M + 1, pre: 0}
	switch op {
	case "", "=":
		switch n {
		case 3:
			return op + txt, []c03Prim{{op: "=", v: v, userPre: up}}
		case 2:
			return op + txt, []c03Prim{lo, {op: "<", v: nextMinor}}
		default:
			return op + txt, []c03Prim{lo, {op: "<", v: nextMajor}}
		}
	case ">":
		switch n {
		case 3:
			return op + txt, []c03Prim{{op: ">", v: v, userPre: up}}
		case 2:
			return op + txt, []c03Prim{{op: ">=", v: c03V{M: v.M, m: v.m + 1, pre: 100}}}
		default:
			return op + txt, []c03Prim{{op: ">=", v: c03V{M: v.M + 1, pre: 100}}}
		}
	case ">=":
		return op + txt, []c03Prim{lo}
	case "<":
		if !up {
			c03LtZero = vOr(c03LtZero, vAnd(vAnd(v.M == 0, v.m == 0), v.p == 0))
		}
		if n == 3 {
			return op + txt, []c03Prim{{op: "<", v: v, userPre: up}}
		}
		return op + txt, []c03Prim{{op: "<", v: zero(v)}}
	case "<=":
		switch n {
		case 3:
			return op + txt, []c03Prim{{op: "<=", v: v, userPre: up}}
		case 2:
			return op + txt, []c03Prim{{op: "<", v: nextMinor}}
		default:
			return op + txt, []c03Prim{{op: "<", v: nextMajor}}
		}
	case "~", "~>":
		if n == 1 {
			return op + txt, []c03Prim{lo, {op: "<", v: nextMajor}}
		}
		return op + txt, []c03Prim{lo, {op: "<", v: nextMinor}}
	case "^":
		hi := nextMajor
		if n == 1 {
			return op + txt, []c03Prim{lo, {op: "<", v: hi}}
		}
		// first non-zero of (M, m, p) is the one incremented; symbolic, so select with ite
		if n == 2 {
			hiM := vIteInt(v.M > 0, v.M+1, 0)
			him := vIteInt(v.M > 0, 0, v.m+1)
			return op + txt, []c03Prim{lo, {op: "<", v: c03V{M: hiM, m: him, pre: 0}}}
		}
		hiM := vIteInt(v.M > 0, v.M+1, 0)
		him := vIteInt(v.M > 0, 0, vIteInt(v.m > 0, v.m+1, 0))
		hip := vIteInt(vOr(v.M > 0, v.m > 0), 0, v.p+1)
		return op + txt, []c03Prim{lo, {op: "<", v: c03V{M: hiM, m: him, p: hip, pre: 0}}}
	}
	return op + txt, nil
}

func c03Star(op string) []c03Prim {
	switch op {
	case ">", "<":
		return []c03Prim{{op: "none"}}
	}
	return []c03Prim{{op: "any"}}
}

func c03Candidate(tag string) (string, c03V) {
	txt, v, _ := c03Partial(tag, 3, vParam(tag+"pre") == 1)
	return txt, v
}

func VerifC03Npm() {
	c03LtZero = false
	shape := vParam("shape") // 0 single, 1 AND (space), 2 OR (||), 3 hyphen
	var text string
	var sets [][]c03Prim
	switch shape {
	case 0:
		t, p := c03NpmComparator("a")
		text, sets = t, [][]c03Prim{p}
	case 1:
		ta, pa := c03NpmComparator("a")
		tb, pb := c03NpmComparator("b")
		text, sets = ta+" "+tb, [][]c03Prim{append(pa, pb...)}
	case 2:
		ta, pa := c03NpmComparator("a")
		tb, pb := c03NpmComparator("b")
		text, sets = ta+" || "+tb, [][]c03Prim{pa, pb}
	case 3:
		ta, va, _ := c03Partial("a", vParam("an"), vParam("apre") == 1)
		tb, vb, nb := c03Partial("b", vParam("bn"), vParam("bpre") == 1)
		hi := c03Prim{op: "<=", v: vb, userPre: vParam("bpre") == 1 && nb == 3}
		if nb == 2 {
			hi = c03Prim{op: "<", v: c03V{M: vb.M, m: vb.m + 1, pre: 0}}
		} else if nb == 1 {
			hi = c03Prim{op: "<", v: c03V{M: vb.M + 1, pre: 0}}
		}
		text = ta + " - " + tb
		sets = [][]c03Prim{{{op: ">=", v: va, userPre: vParam("apre") == 1 && vParam("an") == 3}, hi}}
	}
	cand, cv := c03Candidate("v")
	if vParam("kf_c03_and_mixed_prerelease") == 1 && shape == 1 && (vParam("apre") == 1) != (vParam("bpre") == 1) && vParam("vpre") == 1 {
		// open finding: in a comparator set, node-semver admits a prerelease candidate if ANY comparator names a
		// prerelease of its tuple and then tests every comparator on the plain order; the library decides
		// prerelease admission per span before intersecting
		return
	}
	if vParam("kf_c03_lt_zero_prerelease") == 1 {
		// open finding: '<0.0.0' (also '<0', '<0.0') is the empty set, so prereleases of 0.0.0 admitted by
		// another comparator of the same set are lost
		vAssume(vNot(vAnd(c03LtZero, vAnd(vAnd(cv.M == 0, cv.m == 0), vAnd(cv.p == 0, cv.pre != 100)))))
	}
	vObserveStr("req", text)
	vObserveStr("cand", cand)
	want := false
	for _, s := range sets {
		want = vOr(want, c03MatchSet(cv, s))
	}
	// a requirement node-semver accepts as non-empty must not be rejected
	nonEmpty := true
	c, err := NPM.ParseConstraint(text)
	if err != nil {
		if shape == 3 {
			if vParam("kf_c03_hyphen_partial_upper") == 1 && vParam("bn") < 3 {
				return // open finding: 'A - B' with a partial B is compared before B is widened to its range
			}
			// "A - B" with B below A is an empty range in node-semver; the library reports it as an error
			vCover(true, "hyphen range rejected")
			vAssert(vNot(want), "a rejected hyphen range matches nothing in the reference either")
			return
		}
		vAssert(!nonEmpty, "a requirement the reference accepts is not rejected")
		return
	}
	vCover(true, "requirement parsed")
	got := c.Match(cand)
	vObserveBool("got", got)
	vObserveBool("want", want)
	vCover(want, "reference matches")
	vCover(vNot(want), "reference rejects")
	vAssert(got == want, "matching agrees with node-semver")
}

// ---- PyPI specifiers on final releases with a non-zero release segment

var c03PyOps = []string{"==", "!=", "<=", ">=", "<", ">", "~=", "==*", "!=*"}

func c03PyRelease(tag string, n int) (string, [3]int) {
	var r [3]int
	s := ""
	for i := 0; i < n; i++ {
		d, sd := c03Digit(tag + c03Dg[i])
		r[i] = d
		if i > 0 {
			s += "."
		}
		s += sd
	}
	return s, r
}

func c03CmpRel(a, b [3]int) int {
	c := 0
	for i := 2; i >= 0; i-- {
		c = vIteInt(a[i] < b[i], -1, vIteInt(a[i] > b[i], 1, c))
	}
	return c
}

func c03PyClause(tag string, cand [3]int) (string, bool, bool) {
	op := c03PyOps[vParam(tag+"op")]
	n := vParam(tag + "n")
	txt, r := c03PyRelease(tag, n)
	c := c03CmpRel(cand, r)
	prefix := true
	for i := 0; i < n; i++ {
		prefix = vAnd(prefix, cand[i] == r[i])
	}
	switch op {
	case "==":
		return op + txt, c == 0, true
	case "!=":
		return op + txt, c != 0, true
	case "<=":
		return op + txt, c <= 0, true
	case ">=":
		return op + txt, c >= 0, true
	case "<":
		return op + txt, c < 0, true
	case ">":
		return op + txt, c > 0, true
	case "~=":
		if n < 2 {
			return op + txt, false, false
		}
		pre := true
		for i := 0; i < n-1; i++ {
			pre = vAnd(pre, cand[i] == r[i])
		}
		return op + txt, vAnd(c >= 0, pre), true
	case "==*":
		return "==" + txt + ".*", prefix, true
	case "!=*":
		return "!=" + txt + ".*", vNot(prefix), true
	}
	return "", false, false
}

func VerifC03PyPI() {
	ctxt, cand := c03PyRelease("v", vParam("vn"))
	vAssume(vOr(vOr(cand[0] != 0, cand[1] != 0), cand[2] != 0)) // a non-zero release segment (the property's domain)
	ta, wa, oka := c03PyClause("a", cand)
	text, want, ok := ta, wa, oka
	if vParam("two") == 1 {
		tb, wb, okb := c03PyClause("b", cand)
		text, want, ok = ta+","+tb, vAnd(wa, wb), oka && okb
	}
	vObserveStr("req", text)
	vObserveStr("cand", ctxt)
	c, err := PyPI.ParseConstraint(text)
	if !ok {
		vCover(true, "specifier packaging rejects")
		vAssert(err != nil, "an invalid specifier is rejected")
		return
	}
	vAssert(err == nil, "a specifier packaging accepts is not rejected")
	if err != nil {
		return
	}
	vCover(true, "requirement parsed")
	got := c.Match(ctxt)
	vObserveBool("got", got)
	vObserveBool("want", want)
	vCover(want, "reference matches")
	vCover(vNot(want), "reference rejects")
	vAssert(got == want, "matching agrees with PEP 440 specifiers")
}

// ---- Maven version ranges

func VerifC03Maven() {
	ctxt, cand := c03PyRelease("v", vParam("vn"))
	rng := func(tag string) (string, bool) {
		kind := vParam(tag + "k") // 0 [a,b] 1 (a,b) 2 [a,b) 3 (a,b] 4 [a,) 5 (,b] 6 [a] 7 (,b) 8 (a,)
		ta, a := c03PyRelease(tag+"lo", vParam(tag+"n"))
		tb, b := c03PyRelease(tag+"hi", vParam(tag+"n"))
		ca, cb := c03CmpRel(cand, a), c03CmpRel(cand, b)
		if kind <= 3 {
			// Maven rejects a range that defies version ordering: lower above upper,
			// or identical bounds unless both are inclusive
			ab := c03CmpRel(a, b)
			if kind == 0 {
				vAssume(ab <= 0)
			} else {
				vAssume(ab < 0)
			}
		}
		switch kind {
		case 0:
			return "[" + ta + "," + tb + "]", vAnd(ca >= 0, cb <= 0)
		case 1:
			return "(" + ta + "," + tb + ")", vAnd(ca > 0, cb < 0)
		case 2:
			return "[" + ta + "," + tb + ")", vAnd(ca >= 0, cb < 0)
		case 3:
			return "(" + ta + "," + tb + "]", vAnd(ca > 0, cb <= 0)
		case 4:
			return "[" + ta + ",)", ca >= 0
		case 5:
			return "(," + tb + "]", cb <= 0
		case 6:
			return "[" + ta + "]", ca == 0
		case 7:
			return "(," + tb + ")", cb < 0
		}
		return "(" + ta + ",)", ca > 0
	}
	var text string
	var want bool
	switch vParam("shape") {
	case 0:
		text, want = rng("a")
	case 1:
		ta, wa := rng("a")
		tb, wb := rng("b")
		text, want = ta+","+tb, vOr(wa, wb)
	case 2: // a bare version is a soft requirement: it accepts everything
		t, _ := c03PyRelease("s", vParam("an"))
		text, want = t, true
	}
	vObserveStr("req", text)
	vObserveStr("cand", ctxt)
	c, err := Maven.ParseConstraint(text)
	if err != nil {
		// Maven rejects a range whose lower bound is above its upper bound; so may the library
		vCover(true, "range rejected")
		if vParam("shape") != 1 {
			vAssert(vNot(want), "a rejected range would match nothing in the reference either")
		}
		return
	}
	vCover(true, "requirement parsed")
	got := c.Match(ctxt)
	vObserveBool("got", got)
	vObserveBool("want", want)
	vCover(want, "reference matches")
	vCover(vNot(want), "reference rejects")
	vAssert(got == want, "matching agrees with Maven's VersionRange")
}

// ---- Cargo: the semver crate's VersionReq. Comma = AND; a bare version is a caret requirement; =, >, >=, <,
// <=, ~, ^ on full or partial versions desugar to the same primitive bounds as node-semver's (~I is =I,
// =I.J is >=I.J.0 <I.(J+1).0, ...); wildcards are spelled .*; a prerelease candidate matches only if some
// comparator carries a prerelease on the same major.minor.patch.

var c03CargoOps = []string{"", "=", ">", ">=", "<", "<=", "^", "~"}

func c03CargoComparator(tag string) (string, []c03Prim) {
	op := c03CargoOps[vParam(tag+"op")]
	sem := op
	if op == "" {
		sem = "^"
		if vParam(tag+"x") == 1 && vParam(tag+"n") < 3 {
			sem = "=" // 1.* and 1.2.* are wildcard requirements: every version with that prefix
		}
	}
	c03OpOverride, c03XSpelling = sem, ".*"
	txt, prims := c03NpmComparator(tag)
	c03OpOverride, c03XSpelling = "", ".x"
	return op + txt[len(sem):], prims
}

func VerifC03Cargo() {
	c03LtZero = false
	var text string
	var prims []c03Prim
	if vParam("shape") == 0 {
		text, prims = c03CargoComparator("a")
	} else {
		ta, pa := c03CargoComparator("a")
		tb, pb := c03CargoComparator("b")
		text, prims = ta+", "+tb, append(pa, pb...)
	}
	cand, cv := c03Candidate("v")
	if vParam("kf_c03_and_mixed_prerelease") == 1 && vParam("shape") == 1 && (vParam("apre") == 1) != (vParam("bpre") == 1) && vParam("vpre") == 1 {
		return // the same open finding as for npm: prerelease admission is decided per span, not per comparator list
	}
	if vParam("kf_c03_lt_zero_prerelease") == 1 {
		vAssume(vNot(vAnd(c03LtZero, vAnd(vAnd(cv.M == 0, cv.m == 0), vAnd(cv.p == 0, cv.pre != 100)))))
	}
	vObserveStr("req", text)
	vObserveStr("cand", cand)
	want := c03MatchSet(cv, prims)
	c, err := Cargo.ParseConstraint(text)
	vAssert(err == nil, "a requirement the reference accepts is not rejected")
	if err != nil {
		return
	}
	vCover(true, "requirement parsed")
	got := c.Match(cand)
	vObserveBool("got", got)
	vObserveBool("want", want)
	vCover(want, "reference matches")
	vCover(vNot(want), "reference rejects")
	vAssert(got == want, "matching agrees with the semver crate's VersionReq")
}
