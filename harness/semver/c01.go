package semver

// C01: comparison is a total preorder.
//
// SemVer-shaped systems (Default, Cargo, Go, NPM, NuGet, Composer) are checked
// at struct level: numeric components are full-width symbolic integers and
// prerelease elements are symbolic bytes, so the laws are decided for every
// value inside a shape, not for sampled strings. VerifC01Coverage shows that
// every string Parse accepts lands in this template space.

var c01Digits = [...]string{"0", "1", "2", "3", "4", "5", "6", "7", "8", "9"}

// c01PreByte: bytes that can occur in a parsed prerelease element.
func c01PreByte(sys System, b byte, last bool) bool {
	ok := vOr(vOr(vAnd('0' <= b, b <= '9'), vAnd('a' <= b, b <= 'z')), vOr(vAnd('A' <= b, b <= 'Z'), b == '-'))
	if sys == NuGet {
		ok = vOr(ok, b == '*') // one '*' may appear anywhere in an element
	}
	return ok
}

// c01Version builds an arbitrary Version of the given shape: k numeric
// components, len(lens) prerelease elements of the given lengths.
func c01Version(sys System, tag string, k int, lens []int) *Version {
	v := &Version{sys: sys}
	for i := 0; i < k; i++ {
		x := value(vInt64(tag + ".num" + c01Digits[i]))
		// parsed values are 0..infinity-1, or the wildcard where the system has one
		if sys.validWildcard('*') {
			vAssume(vAnd(x >= wildcard, x < infinity))
		} else {
			vAssume(vAnd(x >= 0, x < infinity))
		}
		v.addNum(x)
	}
	v.userNumCount = int16(k)
	if sys == NuGet {
		for len(v.num) < 3 {
			v.addNum(0)
		}
	}
	for j, l := range lens {
		e := vBytes(tag+".pre"+c01Digits[j], l)
		stars := 0
		for q := 0; q < l; q++ {
			vAssume(c01PreByte(sys, e[q], j == len(lens)-1 && q == l-1))
			stars += vIteInt(e[q] == '*', 1, 0)
		}
		vAssume(stars <= 1)
		v.pre = append(v.pre, e)
	}
	v.isPrerelease = len(lens) > 0
	return v
}

func c01Lens(tag string) []int {
	var lens []int
	m := vParam(tag + "m")
	for j := 0; j < m; j++ {
		lens = append(lens, vParam(tag+"l"+c01Digits[j]))
	}
	return lens
}

func VerifC01Laws() {
	sys := System(vParam("sys"))
	a := c01Version(sys, "a", vParam("ak"), c01Lens("a"))
	b := c01Version(sys, "b", vParam("bk"), c01Lens("b"))
	c := c01Version(sys, "c", vParam("ck"), c01Lens("c"))
	if !vEngine() {
		// Native replay goes through the public API: the law must fail on
		// what Parse returns for the text of each value.
		a, b, c = c01Reparse(a), c01Reparse(b), c01Reparse(c)
	}
	ab, ba := compare(a, b), compare(b, a)
	bc, ac := compare(b, c), compare(a, c)
	vObserveInt("ab", ab)
	vObserveInt("bc", bc)
	vObserveInt("ac", ac)
	vCover(vAnd(ab < 0, bc < 0), "strict chain")
	vCover(ab == 0, "equal pair")
	// reflexive: the same pointer and an equal copy
	vAssert(compare(a, a) == 0, "reflexive (same pointer)")
	a2 := a.copy()
	vAssert(compare(a, a2) == 0, "reflexive (equal copy)")
	vAssert(vSign(ba) == -vSign(ab), "sign-antisymmetric")
	vAssert(vImplies(vAnd(ab <= 0, bc <= 0), ac <= 0), "transitive")
	vAssert(vImplies(ab == 0, vSign(ac) == vSign(bc)), "equal versions compare identically against a third")
	// build metadata never matters
	a2.build = "+" + vBytes("a.build", 2)
	vAssert(compare(a2, b) == ab, "build metadata ignored")
	// the public string-free entry point agrees
	vAssert(a.Compare(b) == ab, "Version.Compare is compare")
}

// VerifC01Coverage: every accepted string of length n parses to a Version in
// the template space of VerifC01Laws (shape limits are asserted separately so
// that a too-small shape bound is reported, not hidden).
func VerifC01Coverage() {
	sys := System(vParam("sys"))
	n := vParam("n")
	s := vBytes("s", n)
	v, err := sys.Parse(s)
	if err != nil {
		return
	}
	vCover(true, "accepted")
	vAssert(v.ext == nil, "coverage: no extension")
	vAssert(v.sys == sys, "coverage: system recorded")
	kmax := 3
	if sys == NuGet {
		kmax = 4
	}
	if sys == Composer {
		kmax = vParam("n") // unbounded in Composer; bounded by the string length
	}
	vAssert(len(v.num) >= 1 && len(v.num) <= kmax, "coverage: component count in template space")
	for _, x := range v.num {
		if sys.validWildcard('*') {
			vAssert(vAnd(x >= wildcard, x < infinity), "coverage: component is a number or the wildcard")
		} else {
			vAssert(vAnd(x >= 0, x < infinity), "coverage: component is a number or the wildcard")
		}
	}
	for j, e := range v.pre {
		vAssert(len(e) > 0, "coverage: prerelease element non-empty")
		stars := 0
		for q := 0; q < len(e); q++ {
			vAssert(c01PreByte(sys, e[q], j == len(v.pre)-1 && q == len(e)-1), "coverage: prerelease byte in class")
			stars += vIteInt(e[q] == '*', 1, 0)
		}
		vAssert(stars <= 1, "coverage: at most one * per element")
	}
}

// c01Unparse prints a template value as text that Parse maps back to it.
func c01Unparse(v *Version) string {
	s := ""
	if v.sys == Go {
		s = "v"
	}
	for i := 0; i < int(v.userNumCount); i++ {
		if i > 0 {
			s += "."
		}
		if v.num[i] == wildcard {
			s += "*"
		} else {
			s += value(v.num[i]).String()
		}
	}
	for j, e := range v.pre {
		if j == 0 {
			s += "-"
		} else {
			s += "."
		}
		s += e
	}
	return s
}

// c01Reparse (native replay only): text of v through the public Parse. A
// template value no string parses to is not a counterexample.
func c01Reparse(v *Version) *Version {
	w, err := v.sys.Parse(c01Unparse(v))
	if err != nil {
		vAssume(false)
	}
	vAssume(len(w.num) == len(v.num) && len(w.pre) == len(v.pre))
	for i := range w.num {
		vAssume(w.num[i] == v.num[i])
	}
	for i := range w.pre {
		vAssume(w.pre[i] == v.pre[i])
	}
	return w
}
