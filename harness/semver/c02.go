package semver

// C02: ordering agrees with each ecosystem's published algorithm. The oracle
// is a transcription written over template *fields*, never over the library's
// parse. SemVer-shaped systems reuse the struct-level templates of C01 (replays
// go through the public Parse); PyPI versions are built from PEP 440 fields, in
// the normalised spelling and in alternative spellings.

// ---- SemVer 2.0 §11 (npm, Cargo, Go) and NuGet SemVer2

func c02AllDigits(s string) bool {
	ok := true
	for i := 0; i < len(s); i++ {
		ok = vAnd(ok, vAnd('0' <= s[i], s[i] <= '9'))
	}
	return ok
}

func c02Lower(c byte) int {
	return vIteInt(vAnd('A' <= c, c <= 'Z'), int(c)+32, int(c))
}

// c02CmpIdent: both numeric -> by value; numeric < alphanumeric; else ASCII
// order (NuGet: case-insensitive). Leading zeros are excluded by the domain,
// so numeric identifiers of different length order by length.
func c02CmpIdent(sys System, a, b string) int {
	na, nb := c02AllDigits(a), c02AllDigits(b)
	// numeric comparison (no leading zeros: longer is larger, equal length: lexicographic)
	num := 0
	if len(a) != len(b) {
		if len(a) < len(b) {
			num = -1
		} else {
			num = 1
		}
	} else {
		for i := len(a) - 1; i >= 0; i-- {
			num = vIteInt(a[i] < b[i], -1, vIteInt(a[i] > b[i], 1, num))
		}
	}
	// string comparison
	str := 0
	if len(a) < len(b) {
		str = -1
	} else if len(a) > len(b) {
		str = 1
	}
	n := len(a)
	if len(b) < n {
		n = len(b)
	}
	for i := n - 1; i >= 0; i-- {
		ca, cb := int(a[i]), int(b[i])
		if sys == NuGet {
			ca, cb = c02Lower(a[i]), c02Lower(b[i])
		}
		str = vIteInt(ca < cb, -1, vIteInt(ca > cb, 1, str))
	}
	return vIteInt(vAnd(na, nb), num, vIteInt(na, -1, vIteInt(nb, 1, str)))
}

func c02RefSemver(a, b *Version) int {
	res := 0
	// prerelease
	la, lb := len(a.pre), len(b.pre)
	switch {
	case la == 0 && lb == 0:
		res = 0
	case la == 0:
		res = 1
	case lb == 0:
		res = -1
	default:
		if la < lb {
			res = -1
		} else if la > lb {
			res = 1
		}
		n := la
		if lb < n {
			n = lb
		}
		for i := n - 1; i >= 0; i-- {
			c := c02CmpIdent(a.sys, a.pre[i], b.pre[i])
			res = vIteInt(c != 0, c, res)
		}
	}
	n := len(a.num)
	if len(b.num) > n {
		n = len(b.num)
	}
	for i := n - 1; i >= 0; i-- {
		x, y := a.getNum(i), b.getNum(i)
		res = vIteInt(x < y, -1, vIteInt(x > y, 1, res))
	}
	return res
}

// c02StrictIdent: the identifier is valid in strict SemVer (numeric
// identifiers have no leading zero).
func c02StrictIdent(s string) bool {
	if len(s) > 1 {
		return vNot(vAnd(c02AllDigits(s), s[0] == '0'))
	}
	return true
}

func VerifC02Semver() {
	sys := System(vParam("sys"))
	a := c01Version(sys, "a", vParam("ak"), c01Lens("a"))
	b := c01Version(sys, "b", vParam("bk"), c01Lens("b"))
	// the reference tools accept neither wildcards nor leading zeros
	for _, v := range []*Version{a, b} {
		for _, x := range v.num {
			vAssume(x >= 0)
		}
		for _, e := range v.pre {
			vAssume(c02StrictIdent(e))
			for q := 0; q < len(e); q++ {
				vAssume(e[q] != '*')
			}
		}
	}
	if vParam("kf_c02_hyphen_numeric") == 1 {
		// open finding: identifiers such as "-5" are treated as negative numbers
		for _, v := range []*Version{a, b} {
			for _, e := range v.pre {
				if len(e) > 1 {
					vAssume(vNot(vAnd(e[0] == '-', c02AllDigits(e[1:]))))
				}
			}
		}
	}
	if !vEngine() {
		a, b = c01Reparse(a), c01Reparse(b)
	}
	got := compare(a, b)
	want := c02RefSemver(a, b)
	vObserveInt("got", vSign(got))
	vObserveInt("want", want)
	vCover(want < 0, "reference says less")
	vCover(want == 0, "reference says equal")
	vAssert(vSign(got) == want, "ordering agrees with SemVer 2.0 precedence")
}

// ---- PEP 440 (packaging's _cmpkey) on field-built versions

type c02Py struct {
	epoch   int
	rel     [4]int
	nrel    int
	pre     int // 0 none, 1 a, 2 b, 3 rc
	preN    int
	post    bool
	postN   int
	dev     bool
	devN    int
	local   string // "" or one segment
	localN  int    // value of an all-digit segment
	spelled string
}

var c02PreNorm = [...]string{"", "a", "b", "rc"}
var c02PreAlt = [...][]string{{""}, {"a", "alpha", "A", ".a", "-alpha", "_a"}, {"b", "beta", "-b", ".beta"}, {"rc", "c", "pre", "preview", "-rc", ".RC"}}

func c02Digit(tag string) (int, string) {
	b := vByte(tag)
	vAssume(vAnd('0' <= b, b <= '9'))
	return int(b - '0'), string([]byte{b})
}

func c02BuildPy(tag string) *c02Py {
	p := &c02Py{}
	s := ""
	if vParam(tag+"epoch") == 1 {
		n, d := c02Digit(tag + ".epoch")
		p.epoch = n
		s += d + "!"
	}
	if vParam(tag+"v") == 1 {
		s += "v"
	}
	p.nrel = vParam(tag + "nrel")
	for i := 0; i < p.nrel; i++ {
		n, d := c02Digit(tag + ".rel" + c01Digits[i])
		p.rel[i] = n
		if i > 0 {
			s += "."
		}
		s += d
	}
	p.pre = vParam(tag + "pre")
	if p.pre != 0 {
		n, d := c02Digit(tag + ".pren")
		p.preN = n
		alts := c02PreAlt[p.pre]
		s += alts[vParam(tag+"prespell")%len(alts)] + d
	}
	switch vParam(tag + "post") {
	case 1:
		n, d := c02Digit(tag + ".postn")
		p.post, p.postN = true, n
		s += ".post" + d
	case 2: // implicit post release "-N"
		n, d := c02Digit(tag + ".postn")
		p.post, p.postN = true, n
		s += "-" + d
	case 3:
		n, d := c02Digit(tag + ".postn")
		p.post, p.postN = true, n
		s += "_rev" + d
	}
	switch vParam(tag + "dev") {
	case 1:
		n, d := c02Digit(tag + ".devn")
		p.dev, p.devN = true, n
		s += ".dev" + d
	case 2:
		n, d := c02Digit(tag + ".devn")
		p.dev, p.devN = true, n
		s += "DEV" + d
	}
	switch vParam(tag + "local") {
	case 1: // one alphabetic segment
		b := vByte(tag + ".local")
		vAssume(vAnd('a' <= b, b <= 'z'))
		p.local = string([]byte{b})
		s += "+" + p.local
	case 2: // one numeric segment
		n, d := c02Digit(tag + ".local")
		p.local, p.localN = d, n
		s += "+" + d
	case 3: // a numeric segment spelled with a leading zero: the same number
		n, d := c02Digit(tag + ".local")
		p.local, p.localN = "0"+d, n
		s += "+0" + d
	case 4: // a two-digit numeric segment
		n1, d1 := c02Digit(tag + ".local1")
		n0, d0 := c02Digit(tag + ".local0")
		vAssume(n1 >= 1)
		p.local, p.localN = d1+d0, n1*10+n0
		s += "+" + d1 + d0
	}
	p.spelled = s
	return p
}

// c02PyKey ranks as packaging's _cmpkey does.
func c02CmpPy(a, b *c02Py) int {
	res := 0
	cmp := func(x, y int) {
		res = vIteInt(x < y, -1, vIteInt(x > y, 1, res))
	}
	// compared from the least significant key up, so that more significant keys overwrite
	// local: absent < present; strings < ints; then natural order
	la, lb := a.local != "", b.local != ""
	if la && lb {
		da, db := c02AllDigits(a.local), c02AllDigits(b.local)
		ca, cb := int(a.local[0]), int(b.local[0])
		if da && db {
			ca, cb = a.localN, b.localN // all-digit segments are integers: 01 is 1
		}
		res = vIteInt(vAnd(da, vNot(db)), 1, vIteInt(vAnd(vNot(da), db), -1, vIteInt(ca < cb, -1, vIteInt(ca > cb, 1, 0))))
	} else if la {
		res = 1
	} else if lb {
		res = -1
	}
	// dev: present sorts before absent
	devKey := func(p *c02Py) (int, int) {
		if p.dev {
			return 0, p.devN
		}
		return 1, 0
	}
	ad, adn := devKey(a)
	bd, bdn := devKey(b)
	cmp(adn, bdn)
	cmp(ad, bd)
	// post: absent sorts before present
	postKey := func(p *c02Py) (int, int) {
		if p.post {
			return 1, p.postN
		}
		return 0, 0
	}
	ap, apn := postKey(a)
	bp, bpn := postKey(b)
	cmp(apn, bpn)
	cmp(ap, bp)
	// pre: a dev release of a final release (no pre, no post) sorts before all pre-releases
	preKey := func(p *c02Py) (int, int) {
		if p.pre == 0 && !p.post && p.dev {
			return -1, 0
		}
		if p.pre == 0 {
			return 4, 0
		}
		return p.pre, p.preN
	}
	apr, aprn := preKey(a)
	bpr, bprn := preKey(b)
	cmp(aprn, bprn)
	cmp(apr, bpr)
	for i := 3; i >= 0; i-- {
		cmp(a.rel[i], b.rel[i])
	}
	cmp(a.epoch, b.epoch)
	return res
}

func VerifC02PyPI() {
	a := c02BuildPy("a")
	b := c02BuildPy("b")
	vObserveStr("sa", a.spelled)
	vObserveStr("sb", b.spelled)
	va, err := PyPI.Parse(a.spelled)
	vAssert(err == nil, "a PEP 440 version is accepted")
	if err != nil {
		return
	}
	vb, err := PyPI.Parse(b.spelled)
	vAssert(err == nil, "a PEP 440 version is accepted")
	if err != nil {
		return
	}
	if vParam("kf_c02_pypi_pre_post") == 1 && ((a.pre != 0 && a.post) || (b.pre != 0 && b.post)) {
		return // open finding: post-releases of pre-releases
	}
	if vParam("kf_c02_pypi_local_rank") == 1 && (a.local != "" || b.local != "") && (a.post || b.post || a.dev || b.dev || a.pre != 0 || b.pre != 0) {
		return // open finding: local labels ignored next to pre/post/dev segments
	}
	got := compare(va, vb)
	want := c02CmpPy(a, b)
	vObserveInt("got", vSign(got))
	vObserveInt("want", want)
	vCover(want < 0, "reference says less")
	vCover(want == 0, "reference says equal")
	vAssert(vSign(got) == want, "ordering agrees with PEP 440")
}

// VerifC02LongNumeric: all-digit prerelease identifiers of up to ten digits (around 2^31) are numbers in
// SemVer: compared numerically with each other and ordered below alphanumeric identifiers.
var c02LongIDs = []string{"d", "dd", "99999999d", "214748364d", "21474836dd", "100000000d", "dx", "300000000d"}

func VerifC02LongNumeric() {
	sys := System(vParam("sys"))
	ia := c09Instantiate(c02LongIDs[vParam("ia")], "a")
	ib := c09Instantiate(c02LongIDs[vParam("ib")], "b")
	numeric := func(s string) bool {
		for i := 0; i < len(s); i++ {
			if s[i] < '0' || s[i] > '9' {
				return false
			}
		}
		return true
	}
	// no leading zeros (strict SemVer rejects them; npm reads them as numbers): keep to the common ground
	vAssume(vOr(len(ia) == 1, ia[0] != '0'))
	vAssume(vOr(len(ib) == 1, ib[0] != '0'))
	prefix := "1.2.3-"
	if sys == Go {
		prefix = "v1.2.3-"
	}
	sa, sb := prefix+ia, prefix+ib
	vObserveStr("sa", sa)
	vObserveStr("sb", sb)
	a, err := sys.Parse(sa)
	vAssert(err == nil, "a SemVer version with a long numeric identifier is accepted")
	if err != nil {
		return
	}
	b, err := sys.Parse(sb)
	vAssert(err == nil, "a SemVer version with a long numeric identifier is accepted")
	if err != nil {
		return
	}
	want := 0
	na, nb := numeric(ia), numeric(ib)
	switch {
	case na && nb:
		if len(ia) != len(ib) {
			want = -1
			if len(ia) > len(ib) {
				want = 1
			}
		} else {
			want = vIteInt(ia < ib, -1, vIteInt(ia > ib, 1, 0))
		}
	case na:
		want = -1
	case nb:
		want = 1
	default:
		want = vIteInt(ia < ib, -1, vIteInt(ia > ib, 1, 0))
	}
	vCover(na && nb && len(ia) == 10, "a ten-digit numeric identifier")
	vAssert(vSign(compare(a, b)) == want, "long numeric identifiers compare as numbers (SemVer 2.0 §11)")
}
