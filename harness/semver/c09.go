package semver

// C09: Union and Intersect of constraint sets mean union and intersection of
// the versions matched. Operands come from constraint template strings through
// the real ParseConstraint ('d' = symbolic digit, 'l' = symbolic letter).

var c09Constraints = map[System][]string{
	DefaultSystem: {
		"d.d.d", ">=d.d.d", "<d.d.d", ">d.d.d", "<=d.d.d", // 0-4
		">=d.d.d <d.d.d", ">d.d.d <=d.d.d", "^d.d.d", "~d.d.d", "d.x", // 5-9
		"d.d.d - d.d.d", ">=d.d.d-l", "<d.d.d-l", ">d.d.d-l <d.d.d", // 10-13
		">=d.d.d <d.d.d || >=d.d.d <d.d.d", "d.d.d || d.d.d", "<d.d.d || >d.d.d", "*", "^d.d", "~d", // 14-19
		"d.d.d-l", ">=d.d", "<d.d", ">d.d.d-l || <d.d.d-l", // 20-23
		"d.x || d.x", ">=d.d.d-l || ^d.d.d || d.d.d", "^d.d || ~d.x.x-l", "<d.d.d-0d", "d.d.d || d.d.d || d.d.d", // 24-28
		"{(d.d.d:d.d.d]}", "{[d.d.d:d.d.d]}", "{[d.d.d:d.d.d)}", "{(d.d.d:d.d.d),[d.d.d:d.d.d]}", // spans written in the set syntax: open and closed ends 29-32
		">=0.0.0-0.d <d.d.d", ">0.0.0-0.l", // 33-34: lower bounds just above the minimum version 0.0.0-0
		">=d.0.0-l <=d.0.0 || >=d.0.0 <=d.0.0", // 35: two spans that may overlap and stay unmerged (a prerelease lower bound)
	},
	NPM: {
		"d.d.d", ">=d.d.d", "<d.d.d", ">d.d.d", "<=d.d.d",
		">=d.d.d <d.d.d", ">d.d.d <=d.d.d", "^d.d.d", "~d.d.d", "d.x",
		"d.d.d - d.d.d", ">=d.d.d-l", "<d.d.d-l", ">d.d.d-l <d.d.d",
		">=d.d.d <d.d.d || >=d.d.d <d.d.d", "d.d.d || d.d.d", "<d.d.d || >d.d.d", "*", "^d.d", "~d",
		"d.d.d-l", ">=d.d", "<d.d", ">d.d.d-l || <d.d.d-l",
		"d.x || d.x", ">=d.d.d-l || ^d.d.d || d.d.d", "^d.d || ~d.x.x-l", "<d.d.d-0d", "d.d.d || d.d.d || d.d.d",
		"{(d.d.d:d.d.d]}", "{[d.d.d:d.d.d]}", "{[d.d.d:d.d.d)}", "{(d.d.d:d.d.d),[d.d.d:d.d.d]}", // spans written in the set syntax: open and closed ends
		">=0.0.0-0.d <d.d.d", ">0.0.0-0.l",
		">=d.0.0-l <=d.0.0 || >=d.0.0 <=d.0.0",
	},
	Cargo: {
		"d.d.d", ">=d.d.d", "<d.d.d", ">d.d.d", "<=d.d.d",
		">=d.d.d, <d.d.d", ">d.d.d, <=d.d.d", "^d.d.d", "~d.d.d", "d.*",
		"=d.d.d", ">=d.d.d-l", "<d.d.d-l", ">d.d.d-l, <d.d.d",
		"d.d", "d", "=d.d", "*", "^d.d", "~d",
		"=d.d.d-l", ">=d.d", "<d.d", "^0.0.d",
		"=d.d.d-0d", "<d.d.d-0d", // 24-25: an all-digit prerelease identifier with a leading zero is not a number here
		"{(d.d.d:d.d.d]}", "{[d.d.d:d.d.d]}", "{[d.d.d:d.d.d)}", "{(d.d.d:d.d.d),[d.d.d:d.d.d]}", // spans written in the set syntax: open and closed ends 26-29
		">=0.0.0-0.d, <d.d.d", ">0.0.0-0.l", // 30-31
	},
	Go: {
		"vd.d.d", "vd.d.d-l", "v0.d.d", "v1.d.d", "vd.d.d-00d",
		"{(vd.d.d:vd.d.d]}", "{[vd.d.d:vd.d.d]}", "{[vd.d.d:vd.d.d)}", // 5-7
	},
}

var c09Versions = map[System][]string{
	DefaultSystem: {"d.d.d", "d.d.d-l", "d.d.d-d", "d.d", "0.0.0-0.d", "0.0.0-d"},
	NPM:           {"d.d.d", "d.d.d-l", "d.d.d-d", "d.d", "0.0.0-0.d", "0.0.0-d"},
	Cargo:         {"d.d.d", "d.d.d-l", "d.d.d-d", "d.d", "0.0.0-0.d", "0.0.0-d"},
	Go:            {"vd.d.d", "vd.d.d-l", "vd.d.d-d", "v0.d.d"},
}

func c09Instantiate(t string, tag string) string {
	sym := vBytes(tag, len(t))
	out := ""
	for i := 0; i < len(t); i++ {
		b := sym[i]
		switch t[i] {
		case 'd':
			vAssume(vAnd('0' <= b, b <= '9'))
			out += string([]byte{b})
		case 'l':
			vAssume(vAnd('a' <= b, b <= 'z'))
			out += string([]byte{b})
		default:
			out += t[i : i+1]
		}
	}
	return out
}

func c09Parse(sys System, s string) (Set, bool) {
	if len(s) > 0 && s[0] == '{' {
		c, err := sys.ParseSetConstraint(s)
		if err != nil {
			return Set{}, false
		}
		return c.set, true
	}
	c, err := sys.ParseConstraint(s)
	if err != nil {
		return Set{}, false
	}
	return c.set, true
}

func VerifC09SetAlgebra() {
	sys := System(vParam("sys"))
	sa := c09Instantiate(c09Constraints[sys][vParam("ta")], "a")
	sb := c09Instantiate(c09Constraints[sys][vParam("tb")], "b")
	sv := c09Instantiate(c09Versions[sys][vParam("tv")], "v")
	vObserveStr("sa", sa)
	vObserveStr("sb", sb)
	vObserveStr("sv", sv)
	A, ok := c09Parse(sys, sa)
	if !ok {
		return
	}
	B, ok := c09Parse(sys, sb)
	if !ok {
		return
	}
	v, err := sys.Parse(sv)
	if err != nil {
		return
	}
	vCover(true, "operands and version parsed")
	// Membership in the operands, both matching modes.
	inA, inB := A.matchVersion(v, false), B.matchVersion(v, false)
	inAp, inBp := A.matchVersion(v, true), B.matchVersion(v, true)
	vObserveBool("inA", inA)
	vObserveBool("inB", inB)
	if vParam("kf_c09_skip_empty") == 0 {
		vAssert(vImplies(A.Empty(), vNot(vOr(inA, inAp))), "an empty set matches nothing")
	}

	// Fresh copies: Union and Intersect rearrange their operands' spans.
	U, _ := c09Parse(sys, sa)
	B2, _ := c09Parse(sys, sb)
	if err := U.Union(B2); err == nil {
		vCover(true, "union computed")
		vObserveStr("union", U.String())
		vAssert(U.matchVersion(v, false) == vOr(inA, inB), "union matches exactly what either operand matches")
		if vParam("order") == 1 {
			U2, _ := c09Parse(sys, sb)
			A3, _ := c09Parse(sys, sa)
			if err := U2.Union(A3); err == nil {
				vAssert(U2.String() == U.String(), "union does not depend on operand order")
			}
		}
	}
	I, _ := c09Parse(sys, sa)
	B4, _ := c09Parse(sys, sb)
	if err := I.Intersect(B4); err == nil {
		vCover(true, "intersection computed")
		vObserveStr("intersection", I.String())
		vAssert(I.matchVersion(v, true) == vAnd(inAp, inBp), "intersection matches exactly what both operands match (prerelease-inclusive)")
		if !v.IsPrerelease() {
			vAssert(I.matchVersion(v, false) == vAnd(inA, inB), "intersection matches exactly the releases both operands match")
		}
		vAssert(vImplies(I.Empty(), vNot(vOr(I.matchVersion(v, true), I.matchVersion(v, false)))), "an empty intersection matches nothing")
		if vParam("order") == 1 {
			I2, _ := c09Parse(sys, sb)
			A5, _ := c09Parse(sys, sa)
			if err := I2.Intersect(A5); err == nil {
				vAssert(I2.String() == I.String(), "intersection does not depend on operand order")
			}
		}
	}
}
