package semver

// C04: totality of the text entry points of util/semver. Inputs are arbitrary
// byte strings of a concrete length; every Go panic or unwinding failure on a
// feasible path is a violation.

func VerifC04Parse() {
	sys := System(vParam("sys"))
	n := vParam("n")
	s := vBytes("s", n)
	v, err := sys.Parse(s)
	vObserveBool("accepted", err == nil)
	if err == nil {
		vCover(true, "accepted")
		vObserveStr("canon", v.Canon(true))
		_ = v.Canon(false)
		_ = v.String()
		_ = v.IsWildcard()
		_ = v.IsPrerelease()
		_ = v.IsBuild()
		_ = v.Prerelease()
		_, _ = v.Major()
		_, _ = v.Epoch()
	} else {
		vCover(true, "rejected")
	}
}

func VerifC04Constraint() {
	sys := System(vParam("sys"))
	n := vParam("n")
	s := vBytes("s", n)
	c, err := sys.ParseConstraint(s)
	vObserveBool("accepted", err == nil)
	if err == nil {
		vCover(true, "accepted")
		_ = c.String()
		vObserveBool("simple", c.IsSimple())
		_ = c.HasPrerelease()
		set := c.Set()
		vObserveStr("set", set.String())
		_ = set.Empty()
	} else {
		vCover(true, "rejected")
	}
}

func VerifC04ConstraintMatch() {
	sys := System(vParam("sys"))
	s := vBytes("s", vParam("n"))
	t := vBytes("t", vParam("m"))
	c, err := sys.ParseConstraint(s)
	if err != nil {
		return
	}
	vCover(true, "accepted")
	vObserveBool("match", c.Match(t))
	v, err := sys.Parse(t)
	if err == nil {
		_ = c.MatchVersion(v)
		_ = c.MatchVersionPrerelease(v)
		_, _ = c.Set().Match(t)
	}
}

func VerifC04Set() {
	sys := System(vParam("sys"))
	n := vParam("n")
	s := vBytes("s", n)
	c, err := sys.ParseSetConstraint(s)
	vObserveBool("accepted", err == nil)
	if err == nil {
		vCover(true, "accepted")
		set := c.Set()
		vObserveStr("set", set.String())
		_ = set.Empty()
		_ = c.IsSimple()
	} else {
		vCover(true, "rejected")
	}
}

func VerifC04Compare() {
	sys := System(vParam("sys"))
	a := vBytes("a", vParam("n"))
	b := vBytes("b", vParam("m"))
	vObserveInt("cmp", sys.Compare(a, b))
	c, d, err := sys.Difference(a, b)
	if err == nil {
		vObserveInt("diffc", c)
		vObserveInt("diffd", int(d))
	}
}

// VerifC04ConstraintShape: constraints of a given shape whose operands are arbitrary bytes: the compound forms
// (hyphen ranges, and-lists, or-lists, comma lists, bracketed ranges) need more bytes than the arbitrary-string
// harnesses reach.
var c04Shapes = []string{"A - B", "A || B", "A B", "A, B", "[A,B]", "(A,B)", ">=A <B", "A - B || A", "^A ~B", "[A,)", "A.*"}

func VerifC04ConstraintShape() {
	sys := System(vParam("sys"))
	a := vBytes("a", vParam("n"))
	b := vBytes("b", vParam("m"))
	s := ""
	for _, ch := range []byte(c04Shapes[vParam("shape")]) {
		switch ch {
		case 'A':
			s += a
		case 'B':
			s += b
		default:
			s += string([]byte{ch})
		}
	}
	c, err := sys.ParseConstraint(s)
	vObserveBool("accepted", err == nil)
	if err != nil {
		vCover(true, "rejected")
		return
	}
	vCover(true, "accepted")
	_ = c.String()
	set := c.Set()
	vObserveStr("set", set.String())
	_ = set.Empty()
	_ = c.Match(a)
}
