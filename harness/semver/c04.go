package semver

// C04: totality of the text entry points of util/semver.

func VerifC04Parse() {
	sys := System(vParam("sys"))
	n := vParam("n")
	s := vBytes("s", n)
	v, err := sys.Parse(s)
	if err == nil {
		vCover(true, "accepted")
		_ = v.Canon(true)
		_ = v.Canon(false)
		_ = v.String()
		_ = v.IsWildcard()
		_ = v.Prerelease()
	} else {
		vCover(true, "rejected")
	}
}
