package semver

// C02 for RubyGems: the real Parse + compare against a transcription of the
// published Gem::Version#<=> on the version text: segments are the maximal runs
// of digits (integers) and of letters (strings), a '-' stands for ".pre.";
// trailing zero segments are dropped from the part before the first string
// segment and from the part that starts with it; segments are compared pairwise,
// a missing one is 0, a string is smaller than a number, strings compare by bytes.

type c02Seg struct {
	isStr bool
	num   int
	str   string
}

func c02GemSegments(v string) []c02Seg {
	// '-' -> ".pre."
	text := ""
	for i := 0; i < len(v); i++ {
		if v[i] == '-' {
			text += ".pre."
		} else {
			text += v[i : i+1]
		}
	}
	var segs []c02Seg
	isLetter := func(c byte) bool { return ('a' <= c && c <= 'z') || ('A' <= c && c <= 'Z') }
	for i := 0; i < len(text); {
		c := text[i]
		switch {
		case c02IsDigit(c):
			n := 0
			for i < len(text) && c02IsDigit(text[i]) {
				n = n*10 + int(text[i]-'0')
				i++
			}
			segs = append(segs, c02Seg{num: n})
		case isLetter(c):
			j := i
			for j < len(text) && isLetter(text[j]) {
				j++
			}
			segs = append(segs, c02Seg{isStr: true, str: text[i:j]})
			i = j
		default:
			i++
		}
	}
	// canonical segments
	first := len(segs)
	for i, s := range segs {
		if s.isStr {
			first = i
			break
		}
	}
	trim := func(p []c02Seg) []c02Seg {
		for len(p) > 0 && !p[len(p)-1].isStr && p[len(p)-1].num == 0 {
			p = p[:len(p)-1]
		}
		return p
	}
	head := trim(append([]c02Seg(nil), segs[:first]...))
	tail := trim(append([]c02Seg(nil), segs[first:]...))
	return append(head, tail...)
}

func c02GemCompare(a, b string) int {
	as, bs := c02GemSegments(a), c02GemSegments(b)
	for i := 0; i < len(as) || i < len(bs); i++ {
		var l, r c02Seg
		if i < len(as) {
			l = as[i]
		}
		if i < len(bs) {
			r = bs[i]
		}
		switch {
		case l.isStr && r.isStr:
			if l.str == r.str {
				continue
			}
			if l.str < r.str {
				return -1
			}
			return 1
		case l.isStr:
			return -1
		case r.isStr:
			return 1
		}
		if l.num == r.num {
			continue
		}
		if l.num < r.num {
			return -1
		}
		return 1
	}
	return 0
}

var c02GemTemplates = []string{
	"d", "d.d", "d.d.d", "d.d.d.d", "dd.d", "d.dd.d", // 0-5
	"d.d.l", "d.d.ld", "d.d.l.d", "d.d-l", "d.d.ldd", "d.d.l.l", "d.d.l.d.l", "d.d.d.l", "d.dl", "d.d.ll", // 6-15
	"d.d.L", "d.d-ld", "d.d.d-l.d", "d.d.l.d.d", "d-l", // 16-20
}

func VerifC02RubyGems() {
	sa := c01FromTemplateList(c02GemTemplates[vParam("ta")], "a")
	sb := c01FromTemplateList(c02GemTemplates[vParam("tb")], "b")
	vObserveStr("sa", sa)
	vObserveStr("sb", sb)
	if vParam("kf_c02_rubygems_case") == 1 {
		// open finding: the library lower-cases the version, Gem::Version compares letters by bytes
		for _, s := range []string{sa, sb} {
			for i := 0; i < len(s); i++ {
				vAssume(vNot(vAnd('A' <= s[i], s[i] <= 'Z')))
			}
		}
	}
	a, err := RubyGems.Parse(sa)
	vAssert(err == nil, "a Gem::Version string is accepted")
	if err != nil {
		return
	}
	b, err := RubyGems.Parse(sb)
	vAssert(err == nil, "a Gem::Version string is accepted")
	if err != nil {
		return
	}
	got := vSign(compare(a, b))
	want := c02GemCompare(sa, sb)
	vObserveInt("got", got)
	vObserveInt("want", want)
	vCover(want < 0, "reference says less")
	vCover(want == 0, "reference says equal")
	vAssert(got == want, "ordering agrees with Gem::Version")
}
