package semver

// C02 for Maven: the real Parse + compare against a transcription of Maven's
// own ComparableVersion (the algorithm of Maven 3.6.x - 3.8.6, which is the
// release the library says it follows; 3.8.7 changed how a qualifier after a
// '.' is nested). The transcription works on the version *text*, not on the
// library's parse: items are integers, qualifier strings and nested lists;
// '-' and a digit/letter transition open a nested list; trailing "null" items
// (0, "", ga/final/release) are trimmed from every list.

type c02Item struct {
	kind int // 0 integer, 1 string, 2 list
	num  int
	str  string
	list []*c02Item
}

func c02IsDigit(c byte) bool { return '0' <= c && c <= '9' }

func c02NewString(v string, followedByDigit bool) *c02Item {
	if followedByDigit && len(v) == 1 {
		switch v {
		case "a":
			v = "alpha"
		case "b":
			v = "beta"
		case "m":
			v = "milestone"
		}
	}
	switch v {
	case "ga", "final", "release":
		v = ""
	case "cr":
		v = "rc"
	}
	return &c02Item{kind: 1, str: v}
}

func c02ParseItem(isDigit bool, buf string) *c02Item {
	if isDigit {
		n := 0
		for i := 0; i < len(buf); i++ {
			n = n*10 + int(buf[i]-'0')
		}
		return &c02Item{kind: 0, num: n}
	}
	return c02NewString(buf, false)
}

func c02IsNull(it *c02Item) bool {
	switch it.kind {
	case 0:
		return it.num == 0
	case 1:
		return it.str == ""
	}
	return len(it.list) == 0
}

func c02Normalize(l *c02Item) {
	for i := len(l.list) - 1; i >= 0; i-- {
		last := l.list[i]
		if c02IsNull(last) {
			l.list = append(l.list[:i], l.list[i+1:]...)
		} else if last.kind != 2 {
			break
		}
	}
}

// c02Parse is ComparableVersion.parseVersion on a lower-case ASCII version.
func c02Parse(version string) *c02Item {
	root := &c02Item{kind: 2}
	list := root
	stack := []*c02Item{root}
	isDigit := false
	start := 0
	for i := 0; i < len(version); i++ {
		c := version[i]
		switch {
		case c == '.':
			if i == start {
				list.list = append(list.list, &c02Item{kind: 0})
			} else {
				list.list = append(list.list, c02ParseItem(isDigit, version[start:i]))
			}
			start = i + 1
		case c == '-':
			if i == start {
				list.list = append(list.list, &c02Item{kind: 0})
			} else {
				list.list = append(list.list, c02ParseItem(isDigit, version[start:i]))
			}
			start = i + 1
			nl := &c02Item{kind: 2}
			list.list = append(list.list, nl)
			list = nl
			stack = append(stack, nl)
		case c02IsDigit(c):
			if !isDigit && i > start {
				list.list = append(list.list, c02NewString(version[start:i], true))
				start = i
				nl := &c02Item{kind: 2}
				list.list = append(list.list, nl)
				list = nl
				stack = append(stack, nl)
			}
			isDigit = true
		default:
			if isDigit && i > start {
				list.list = append(list.list, c02ParseItem(true, version[start:i]))
				start = i
				nl := &c02Item{kind: 2}
				list.list = append(list.list, nl)
				list = nl
				stack = append(stack, nl)
			}
			isDigit = false
		}
	}
	if len(version) > start {
		list.list = append(list.list, c02ParseItem(isDigit, version[start:]))
	}
	for i := len(stack) - 1; i >= 0; i-- {
		c02Normalize(stack[i])
	}
	return root
}

var c02Qualifiers = []string{"alpha", "beta", "milestone", "rc", "snapshot", "", "sp"}

func c02QualifierRank(q string) int {
	for i, k := range c02Qualifiers {
		if q == k {
			return i
		}
	}
	return 7
}

// c02CmpQualifier compares the "comparable qualifiers": the index for the known ones, "7-" + text otherwise.
func c02CmpQualifier(a, b string) int {
	ra, rb := c02QualifierRank(a), c02QualifierRank(b)
	if ra != rb {
		if ra < rb {
			return -1
		}
		return 1
	}
	if ra < 7 {
		return 0
	}
	if a < b {
		return -1
	}
	if a > b {
		return 1
	}
	return 0
}

// c02Cmp is Item.compareTo; b == nil is Java's null.
func c02Cmp(a, b *c02Item) int {
	switch a.kind {
	case 0:
		if b == nil {
			if a.num == 0 {
				return 0
			}
			return 1
		}
		switch b.kind {
		case 0:
			if a.num < b.num {
				return -1
			}
			if a.num > b.num {
				return 1
			}
			return 0
		default:
			return 1 // 1.1 > 1-sp, 1.1 > 1-1
		}
	case 1:
		if b == nil {
			return c02CmpQualifier(a.str, "")
		}
		switch b.kind {
		case 0:
			return -1 // 1.any < 1.1
		case 1:
			return c02CmpQualifier(a.str, b.str)
		default:
			return -1 // 1.any < 1-1
		}
	}
	// list
	if b == nil {
		if len(a.list) == 0 {
			return 0
		}
		return c02Cmp(a.list[0], nil)
	}
	switch b.kind {
	case 0:
		return -1 // 1-1 < 1.0.x
	case 1:
		return 1 // 1-1 > 1-sp
	}
	for i := 0; i < len(a.list) || i < len(b.list); i++ {
		var l, r *c02Item
		if i < len(a.list) {
			l = a.list[i]
		}
		if i < len(b.list) {
			r = b.list[i]
		}
		res := 0
		if l == nil {
			if r != nil {
				res = -c02Cmp(r, nil)
			}
		} else {
			res = c02Cmp(l, r)
		}
		if res != 0 {
			return res
		}
	}
	return 0
}

// templates of the C02 Maven domain: dotted numeric prefix, optional qualifier, optional number, optional -SNAPSHOT
var c02MavenTemplates = []string{
	"d", "d.d", "d.d.d", "dd.d", // 0-3
	"d.d-ll", "d.d.ll", "d.d-lld", "d.dld", "d.d-ll-d", "d.d-ll.d", // 4-9: two-letter qualifiers (rc cr ga sp + unknown), shortcuts before a digit
	"d.d-lllll", "d.d-llllld", "d.d.lllll", // 10-12: alpha final + unknown
	"d-SNAPSHOT", "d.d-SNAPSHOT", "d.d-ll-SNAPSHOT", "d.d-lld-SNAPSHOT", // 13-16
	"d.d-llll", "d.d-lllllll", "d.d-lllllllll", "d.d-lll", // 17-20: beta, release, milestone, unknown
	"d-d", "d.d-d", "d.d.d-ld", "d.d-l", "d.dl", // 21-25
}

func c02MavenString(tag string, tid int) string {
	t := c02MavenTemplates[tid]
	sym := vBytes(tag, len(t))
	out := ""
	for i := 0; i < len(t); i++ {
		b := sym[i]
		switch t[i] {
		case 'd':
			vAssume(vAnd('0' <= b, b <= '9'))
			out += string([]byte{b})
		case 'l':
			vAssume(vAnd('a' <= b, b <= 'z'))
			out += string([]byte{b})
		case 'S', 'N', 'A', 'P', 'H', 'O', 'T':
			out += string([]byte{t[i] + 32}) // both sides lower-case the text first
		default:
			out += t[i : i+1]
		}
	}
	return out
}

// c02ReleaseWithNumber: a release-equivalent qualifier (ga, final, release) followed by a number is outside the
// domain of the property.
func c02ReleaseWithNumber(s string) bool {
	for _, q := range []string{"ga", "final", "release"} {
		for i := 0; i+len(q) < len(s); i++ {
			if s[i:i+len(q)] == q && (i == 0 || !('a' <= s[i-1] && s[i-1] <= 'z')) {
				j := i + len(q)
				if j < len(s) && (s[j] == '-' || s[j] == '.') {
					j++
				}
				if j < len(s) && c02IsDigit(s[j]) {
					return true
				}
			}
		}
	}
	return false
}

func VerifC02Maven() {
	sa := c02MavenString("a", vParam("ta"))
	sb := c02MavenString("b", vParam("tb"))
	vObserveStr("sa", sa)
	vObserveStr("sb", sb)
	vAssume(!c02ReleaseWithNumber(sa) && !c02ReleaseWithNumber(sb))
	for _, s := range []string{sa, sb} {
		const snap = "-snapshot"
		if len(s) > len(snap)+2 && s[len(s)-len(snap):] == snap {
			head := s[:len(s)-len(snap)]
			if vParam("kf_c02_maven_release_snapshot") == 1 {
				// open finding: ga/final/release followed by -SNAPSHOT
				vAssume(head[len(head)-2:] != "ga")
			}
			if vParam("kf_c02_maven_zero_number_snapshot") == 1 {
				// open finding: a qualifier's number 0 followed by -SNAPSHOT
				letterBefore := vAnd('a' <= head[len(head)-2], head[len(head)-2] <= 'z')
				vAssume(vNot(vAnd(head[len(head)-1] == '0', letterBefore)))
			}
		}
	}
	a, err := Maven.Parse(sa)
	vAssert(err == nil, "a Maven version in normal form is accepted")
	if err != nil {
		return
	}
	b, err := Maven.Parse(sb)
	vAssert(err == nil, "a Maven version in normal form is accepted")
	if err != nil {
		return
	}
	got := vSign(compare(a, b))
	want := c02Cmp(c02Parse(sa), c02Parse(sb))
	vObserveInt("got", got)
	vObserveInt("want", want)
	vCover(want < 0, "reference says less")
	vCover(want == 0, "reference says equal")
	vAssert(got == want, "ordering agrees with Maven's ComparableVersion")
}
