package semver

// C11: the textual form of a constraint's set parses back to the same set.

var c11NuGet = []string{
	"d.d.d", "[d.d.d]", "[d.d.d,d.d.d]", "(d.d.d,d.d.d)", "[d.d.d,d.d.d)", "(d.d.d,)", "(,d.d.d]", "[d.d.d,)",
	"d.d.*", "d.*", "[d.d.d-l,d.d.d]", "d.d.d-l", "(,d.d.d)", "d.d", "[d.d,d.d.d.d]",
	"[d.d.d-l.0d,d.d.d)", "[d.d.d-0d]", "d.d.d.*", "[d.d.d.d,d.d.d.d]", "[0.0.0-0.d,)", "(0.0.0-0.l,d.d.d]",
}

func c11Template(sys System, i int) string {
	if sys == NuGet {
		return c11NuGet[i]
	}
	return c09Constraints[sys][i]
}

func c11Version(sys System, i int) string {
	if sys == NuGet {
		return []string{"d.d.d", "d.d.d-l", "d.d.d-d", "d.d", "d.d.d-l.d", "0.0.0-0.d", "0.0.0-d"}[i]
	}
	return c09Versions[sys][i]
}

func VerifC11RoundTrip() {
	sys := System(vParam("sys"))
	sc := c09Instantiate(c11Template(sys, vParam("tc")), "c")
	sv := c09Instantiate(c11Version(sys, vParam("tv")), "v")
	vObserveStr("sc", sc)
	vObserveStr("sv", sv)
	c, err := sys.ParseConstraint(sc)
	if err != nil {
		return
	}
	v, err := sys.Parse(sv)
	if err != nil {
		return
	}
	vCover(true, "constraint and version parsed")
	want := c.set.matchVersion(v, true)
	vObserveBool("want", want)
	text := c.Set().String()
	vObserveStr("text", text)
	c2, err := sys.ParseSetConstraint(text)
	vAssert(err == nil, "the printed set parses with the set syntax")
	if err != nil {
		return
	}
	vCover(true, "printed set parsed back")
	text2 := c2.Set().String()
	float4 := sys == NuGet && len(sc) == 7 && sc[6] == '*' // d.d.d.*: a floating fourth component
	if !(float4 && vParam("kf_c11_nuget_float4") == 1) {
		// open finding: the lower bound of d.d.d.* is printed with its fourth component 0, which parsing drops
		vAssert(text2 == text, "the parsed-back set prints identically")
	}
	vAssert(c2.MatchVersionPrerelease(v) == want, "the parsed-back set matches the same versions (prerelease-inclusive)")
}
