package semver

// Conformance of the engine's standard-library models: every path of these
// harnesses is replayed natively and every observed value must be identical.

import (
	"fmt"
	"sort"
	"strconv"
	"strings"
)

func VerifSelfStrings() {
	s := vBytes("s", vParam("n"))
	t := vBytes("t", 1)
	vObserveInt("index", strings.Index(s, "ab"))
	vObserveInt("indexbyte", strings.IndexByte(s, t[0]))
	vObserveInt("lastindex", strings.LastIndex(s, "a"))
	vObserveInt("indexany", strings.IndexAny(s, " \t["))
	vObserveBool("contains", strings.Contains(s, t))
	vObserveBool("containsany", strings.ContainsAny(s, "[(,]*"))
	vObserveBool("containsrune", strings.ContainsRune("abcdehiloprstvw", rune(t[0])))
	vObserveInt("count", strings.Count(s, "a"))
	vObserveInt("compare", strings.Compare(s, t+"a"))
	vObserveBool("hasprefix", strings.HasPrefix(s, "v"))
	vObserveBool("hassuffix", strings.HasSuffix(s, ".*"))
	vObserveStr("trimleft", strings.TrimLeft(s, "v"))
	vObserveStr("trim", strings.Trim(s, " \t"))
	vObserveStr("trimprefix", strings.TrimPrefix(s, "ab"))
	vObserveStr("replace", strings.ReplaceAll(s, "-", "."))
	parts := strings.Split(s, ":")
	vObserveInt("split", len(parts))
	vObserveStr("join", strings.Join(parts, "|"))
	a, b, ok := strings.Cut(s, " ")
	vObserveStr("cut", a+"/"+b)
	vObserveBool("cutok", ok)
	vObserveBool("less", s < t)
	vObserveBool("eq", s == t+t)
	if len(s) > 1 {
		vObserveStr("slice", s[1:])
	}
}

func VerifSelfASCII() {
	s := vBytes("s", vParam("n"))
	for i := 0; i < len(s); i++ {
		vAssume(s[i] < 0x80)
	}
	vObserveStr("lower", strings.ToLower(s))
	vObserveStr("upper", strings.ToUpper(s))
	vObserveStr("trimspace", strings.TrimSpace(s))
	f := strings.Fields(s)
	vObserveInt("fields", len(f))
	ff := strings.FieldsFunc(s, func(r rune) bool { return r == '|' || r == ',' })
	vObserveInt("fieldsfunc", len(ff))
	n := 0
	for i, r := range s {
		n += i + int(r)
	}
	vObserveInt("range", n)
}

func VerifSelfUTF8() {
	s := vBytes("s", vParam("n"))
	n, w := 0, 0
	for i, r := range s {
		n += int(r)
		w = i
	}
	vObserveInt("runesum", n)
	vObserveInt("lastindex", w)
	vObserveStr("trimspace", strings.TrimSpace(s))
}

func VerifSelfNumbers() {
	s := vBytes("s", vParam("n"))
	v, err := strconv.ParseInt(s, 10, 64)
	vObserveBool("parseint_ok", err == nil)
	if err == nil {
		vObserveInt("parseint", int(v))
		vObserveStr("format", strconv.FormatInt(v, 10))
		vObserveStr("sprint", fmt.Sprint(int(v)))
		vObserveStr("sprintf", fmt.Sprintf("%d!%s-%v", v, s, v+1))
	}
	u, err2 := strconv.ParseUint(s, 10, 8)
	vObserveBool("parseuint8_ok", err2 == nil)
	if err2 == nil {
		vObserveInt("parseuint8", int(u))
	}
	w, err3 := strconv.ParseInt(s, 10, 32)
	vObserveBool("parseint32_ok", err3 == nil)
	if err3 == nil {
		vObserveInt("parseint32", int(w))
	}
	a, err4 := strconv.Atoi(s)
	vObserveBool("atoi_ok", err4 == nil)
	if err4 == nil {
		vObserveInt("atoi", a)
	}
}

func VerifSelfArith() {
	x, y := vInt("x"), vInt("y")
	b := vByte("b")
	vObserveInt("add", x+y)
	vObserveInt("sub", x-y)
	vObserveInt("mul3", x*3)
	vObserveInt("and", x&y)
	vObserveInt("or", x|0xff)
	vObserveInt("xor", x^y)
	vObserveInt("shl", x<<3)
	vObserveInt("shr", x>>2)
	vObserveInt("ushr", int(uint64(x)>>60))
	vObserveInt("shlb", x<<(b&63))
	vObserveBool("lt", x < y)
	vObserveBool("ult", uint64(x) < uint64(y))
	vObserveInt("i8", int(int8(x)))
	vObserveInt("u16", int(uint16(x)))
	vObserveInt("i32", int(int32(y)))
	vObserveInt("neg", -x)
	vObserveInt("not", ^x)
	if y != 0 {
		vObserveInt("div", x/y)
		vObserveInt("rem", x%y)
		vObserveInt("udiv", int(uint64(x)/uint64(y)))
	}
	vObserveInt("bytearith", int(b+200))
	vObserveInt("bytelower", int(b|0x20))
}

func VerifSelfSort() {
	n := vParam("n")
	xs := make([]int, n)
	for i := range xs {
		xs[i] = int(vByte("x" + c01Digits[i]))
	}
	ys := append([]int(nil), xs...)
	sort.Slice(xs, func(i, j int) bool { return xs[i] < xs[j] })
	sort.Ints(ys)
	out := ""
	for i := range xs {
		out += strconv.Itoa(xs[i]) + ","
		vAssert(xs[i] == ys[i], "sort.Slice and sort.Ints agree")
	}
	vObserveStr("sorted", out)
	// append aliasing follows the runtime's growth rule
	a := make([]int, 0, 1)
	a = append(a, 1)
	b := append(a, 2)
	c := append(b, 3)
	c[0] = 9
	vObserveInt("alias_a0", a[0])
	vObserveInt("alias_b0", b[0])
	vObserveInt("cap_b", cap(b))
	vObserveInt("cap_c", cap(c))
	m := map[string]int{"a": 1}
	m[string([]byte{vByte("k")})] += 2
	vObserveInt("maplen", len(m))
	vObserveInt("mapa", m["a"])
}
