package semver

// C10: a version's canonical string denotes the same version.

// c10InDomain applies the property's own carve-out: RubyGems versions with a
// prerelease segment are outside (their canonical form is documented private).
func c10InDomain(v *Version) bool {
	if v.sys == RubyGems {
		g := v.ext.(*gemExtension)
		return len(g.elems) == 0
	}
	return true
}

func VerifC10RoundTrip() {
	sys := System(vParam("sys"))
	n := vParam("n")
	s := vBytes("s", n)
	v, err := sys.Parse(s)
	if err != nil {
		return
	}
	if !c10InDomain(v) {
		return
	}
	// Known-finding regions (see known_findings.json); each is assumed away
	// only while the finding is open.
	if vParam("kf_c10_wildcard_tail") == 1 && c10WildcardTail(v) {
		return
	}
	if vParam("kf_c10_maven_leading_sep") == 1 && sys == Maven && c10MavenLeadingSep(s) {
		return
	}
	vCover(true, "accepted in domain")
	for pass := 0; pass < 2; pass++ {
		showBuild := pass == 0
		c := v.Canon(showBuild)
		if pass == 0 {
			vObserveStr("canon", c)
		}
		w, err2 := sys.Parse(c)
		vAssert(err2 == nil, "canonical string parses")
		if err2 != nil {
			return
		}
		vAssert(compare(v, w) == 0, "canonical string compares equal to the original")
		c2 := w.Canon(showBuild)
		vAssert(c2 == c, "canonicalising again gives the identical string")
	}
}

// c10WildcardTail: the region of the open finding "Canon drops what follows the first wildcard": a component or a
// prerelease after the first wildcard component.
func c10WildcardTail(v *Version) bool {
	if !v.IsWildcard() {
		return false
	}
	w, tail := false, false
	for _, x := range v.num {
		if w {
			tail = true
		}
		if x == wildcard {
			w = true
		}
	}
	return tail || len(v.pre) > 0
}

func VerifC10SameCanon() {
	sys := System(vParam("sys"))
	a := vBytes("a", vParam("n"))
	b := vBytes("b", vParam("m"))
	va, err := sys.Parse(a)
	if err != nil {
		return
	}
	vb, err := sys.Parse(b)
	if err != nil {
		return
	}
	if !c10InDomain(va) || !c10InDomain(vb) {
		return
	}
	if vParam("kf_c10_maven_leading_sep") == 1 && sys == Maven && (c10MavenLeadingSep(a) || c10MavenLeadingSep(b)) {
		return
	}
	if vParam("kf_c10_wildcard_tail") == 1 && (c10WildcardTail(va) || c10WildcardTail(vb)) {
		return
	}
	ca, cb := va.Canon(true), vb.Canon(true)
	if ca != cb {
		return
	}
	vCover(true, "same canon")
	vAssert(compare(va, vb) == 0, "same canonical string implies equal")
}

// c10MavenLeadingSep: the string starts with '.' or '-' (an empty first component).
func c10MavenLeadingSep(s string) bool {
	return len(s) > 0 && (s[0] == '.' || s[0] == '-')
}
