package npm

// C06: an npm resolution graph is a valid installation. The skeleton of a
// universe (who requires whom, requirement operator, dependency kind, which
// version is tagged latest or deprecated) comes from job parameters; every
// version number and every number inside a requirement is a symbolic digit, so
// one job decides the clauses for all the universes sharing that skeleton.

import (
	"context"

	"deps.dev/util/resolve"
	"deps.dev/util/resolve/dep"
	"deps.dev/util/resolve/version"
	"deps.dev/util/semver"
)

func c06PK(name string) resolve.PackageKey {
	return resolve.PackageKey{System: resolve.NPM, Name: name}
}

var c06N = [...]string{"0", "1", "2", "3", "4", "5", "6", "7"}
var c06Names = []string{"a", "b", "c"}

// requirement operators; D is a symbolic digit
var c06Ops = []string{"*", "D.0.0", "^D.0.0", ">=D.0.0", "D.x", "latest", "<D.0.0", "~D.0.0", "^D.0.0-rc", "next"}

func c06Digit(tag string) string {
	b := vByte(tag)
	vAssume(vAnd('1' <= b, b <= '4'))
	return string([]byte{b})
}

func c06Inst(t, tag string) string {
	out := ""
	for i := 0; i < len(t); i++ {
		if t[i] == 'D' {
			out += c06Digit(tag)
		} else {
			out += t[i : i+1]
		}
	}
	return out
}

func c06Slot(tag string) (resolve.RequirementVersion, bool) {
	target := vParam(tag + "t") // 0 = none, 1..3 = a,b,c
	if target == 0 {
		return resolve.RequirementVersion{}, false
	}
	req := c06Inst(c06Ops[vParam(tag+"r")], tag+".d")
	var t dep.Type
	switch vParam(tag + "k") {
	case 1:
		t.AddAttr(dep.Opt, "")
	case 2:
		t.AddAttr(dep.Dev, "")
	case 3:
		t.AddAttr(dep.Scope, "peer")
	}
	return resolve.RequirementVersion{VersionKey: resolve.VersionKey{PackageKey: c06PK(c06Names[target-1]), VersionType: resolve.Requirement, Version: req}, Type: t}, true
}

type c06Universe struct {
	lc   *resolve.LocalClient
	root resolve.VersionKey
}

type c06Entry = c05Entry

// c06Entries lists the versions of the universe with their requirements.
func c06Entries() ([]c06Entry, resolve.VersionKey) {
	var out []c06Entry
	root := resolve.VersionKey{PackageKey: c06PK("r"), VersionType: resolve.Concrete, Version: "1.0.0"}
	var rr []resolve.RequirementVersion
	for s := 0; s < 3; s++ {
		if r, ok := c06Slot("r" + c06N[s]); ok {
			rr = append(rr, r)
		}
	}
	out = append(out, c06Entry{v: resolve.Version{VersionKey: root}, reqs: rr})
	for pi, p := range c06Names {
		nv := vParam("nv" + c06N[pi])
		prev := ""
		for vi := 0; vi < nv; vi++ {
			d := c06Digit("ver" + c06N[pi] + c06N[vi])
			if prev != "" {
				vAssume(prev[0] <= d[0]) // listed in ascending order of major version
			}
			ver := d + ".0.0"
			if vParam("pre"+c06N[pi]) == vi {
				ver += "-rc"
			} else if prev != "" {
				vAssume(prev[0] < d[0])
			}
			prev = d
			var reqs []resolve.RequirementVersion
			if r, ok := c06Slot("p" + c06N[pi] + c06N[vi]); ok {
				reqs = append(reqs, r)
			}
			var attrs version.AttrSet
			if vParam("latest"+c06N[pi]) == vi {
				attrs.SetAttr(version.Tags, "latest")
			} else if vParam("next"+c06N[pi]) == vi {
				attrs.SetAttr(version.Tags, "next")
			}
			if vParam("blocked"+c06N[pi]) == vi {
				attrs.SetAttr(version.Blocked, "")
			}
			out = append(out, c06Entry{v: resolve.Version{VersionKey: resolve.VersionKey{PackageKey: c06PK(p), VersionType: resolve.Concrete, Version: ver}, AttrSet: attrs}, reqs: reqs})
		}
	}
	return out, root
}

func c06Client(es []c06Entry, reversed bool) *resolve.LocalClient { return c05Client(es, reversed) }

func c06Build() *c06Universe {
	es, root := c06Entries()
	return &c06Universe{lc: c06Client(es, false), root: root}
}

// c06Satisfies: the edge's requirement admits the version (range, tag, or exact string).
func c06Satisfies(ctx context.Context, lc *resolve.LocalClient, req string, to resolve.VersionKey) bool {
	c, cerr := semver.NPM.ParseConstraint(req)
	if cerr == nil {
		return c.Match(to.Version)
	}
	v, verr := lc.Version(ctx, to)
	if verr != nil {
		return false
	}
	if from, ok := v.GetAttr(version.DerivedFrom); ok {
		// a bundled copy stands for that version of the package it derives from: its tags are the registry's
		orig, oerr := lc.Version(ctx, resolve.VersionKey{PackageKey: c06PK(from), VersionType: resolve.Concrete, Version: to.Version})
		if oerr != nil {
			return to.Version == req
		}
		v = orig
	}
	tags, _ := v.GetAttr(version.Tags)
	return tags == req || to.Version == req
}

func VerifC06Resolve() {
	u := c06Build()
	lc := u.lc
	ctx := context.Background()
	r := NewResolver(lc)
	g, err := r.Resolve(ctx, u.root)
	vAssert(err == nil, "Resolve succeeds")
	if err != nil {
		return
	}
	vCover(true, "resolved")
	vObserveInt("nodes", len(g.Nodes))
	vObserveInt("edges", len(g.Edges))
	vCover(len(g.Nodes) > 2, "a graph with several nodes")
	// A node enters the graph together with the edge that installs it afresh: the first edge that leads to it.
	// A `*` requirement that reuses a copy already installed takes whatever is there (also a prerelease).
	created := make([]bool, len(g.Nodes))
	for _, e := range g.Edges {
		freshEdge := e.To != 0 && !created[e.To]
		if freshEdge {
			created[e.To] = true
		}
		if e.Requirement == "*" && !freshEdge {
			continue
		}
		vAssert(c06Satisfies(ctx, lc, e.Requirement, g.Nodes[e.To].Version), "every edge leads to a version that satisfies the edge's requirement")
	}
	for ni, n := range g.Nodes {
		reqs, rerr := lc.Requirements(ctx, n.Version)
		if rerr != nil {
			continue
		}
		for _, rq := range reqs {
			if rq.Type.HasAttr(dep.Dev) {
				continue
			}
			if s, ok := rq.Type.GetAttr(dep.Scope); ok && s == "peer" {
				continue
			}
			if rq.Type.HasAttr(dep.Opt) {
				continue // an optional requirement nothing satisfies is dropped silently
			}
			found := false
			for _, e := range g.Edges {
				if int(e.From) == ni && g.Nodes[e.To].Version.PackageKey == rq.PackageKey && e.Requirement == rq.Version {
					found = true
				}
			}
			for _, ne := range n.Errors {
				if ne.Req.PackageKey == rq.PackageKey {
					found = true
				}
			}
			vAssert(found, "every non-dev, non-peer requirement of an installed version is resolved by an edge or reported as an error")
		}
	}
	reach := make([]bool, len(g.Nodes))
	reach[0] = true
	for round := 0; round < len(g.Nodes); round++ {
		for _, e := range g.Edges {
			if reach[e.From] {
				reach[e.To] = true
			}
		}
	}
	for i := range reach {
		vAssert(reach[i], "every node is reachable from the root")
	}
	// The root's own requirements are installed afresh, in order, on an empty tree: the version tagged
	// latest when it satisfies the requirement, otherwise the highest satisfying version that is not
	// deprecated (the highest one if all are).
	rootReqs, _ := lc.Requirements(ctx, u.root)
	seen := map[resolve.PackageKey]bool{}
	for _, rq := range rootReqs {
		if s, ok := rq.Type.GetAttr(dep.Scope); ok && s == "peer" {
			continue
		}
		if seen[rq.PackageKey] {
			continue
		}
		seen[rq.PackageKey] = true
		var chosen *resolve.VersionKey
		for _, e := range g.Edges {
			if e.From == 0 && g.Nodes[e.To].Version.PackageKey == rq.PackageKey && e.Requirement == rq.Version {
				vk := g.Nodes[e.To].Version
				chosen = &vk
			}
		}
		if chosen == nil {
			continue
		}
		if _, cerr := semver.NPM.ParseConstraint(rq.Version); cerr != nil {
			continue // a tag or exact string: checked by the satisfaction clause
		}
		vs, _ := lc.Versions(ctx, rq.PackageKey)
		var latest, bestOK, best *resolve.Version
		for i := range vs {
			v := &vs[i]
			if !c06Satisfies(ctx, lc, rq.Version, v.VersionKey) {
				continue
			}
			tags, _ := v.GetAttr(version.Tags)
			if tags == "latest" {
				latest = v
			}
			if best == nil || semver.NPM.Compare(best.Version, v.Version) < 0 {
				best = v
			}
			if !v.HasAttr(version.Blocked) && (bestOK == nil || semver.NPM.Compare(bestOK.Version, v.Version) < 0) {
				bestOK = v
			}
		}
		want := best
		if bestOK != nil {
			want = bestOK
		}
		if latest != nil {
			want = latest
		}
		if want != nil {
			vCover(true, "fresh install checked")
			vAssert(chosen.Version == want.Version, "a dependency installed afresh is the latest-tagged version if it satisfies, else the highest satisfying non-deprecated one")
		}
	}
}

// ---- C05: resolution is a pure function of the universe and the root

type c05Entry struct {
	v    resolve.Version
	reqs []resolve.RequirementVersion
}

func c05Client(es []c05Entry, reversed bool) *resolve.LocalClient {
	lc := resolve.NewLocalClient()
	for k := range es {
		e := es[k]
		if reversed {
			e = es[len(es)-1-k]
		}
		lc.AddVersion(e.v, append([]resolve.RequirementVersion(nil), e.reqs...))
	}
	return lc
}

type c05Snap struct {
	reqs [][]resolve.RequirementVersion
	vers [][]resolve.Version
}

func c05Take(lc *resolve.LocalClient, es []c05Entry) *c05Snap {
	ctx := context.Background()
	s := &c05Snap{}
	for _, e := range es {
		rs, _ := lc.Requirements(ctx, e.v.VersionKey)
		s.reqs = append(s.reqs, append([]resolve.RequirementVersion(nil), rs...))
		vs, _ := lc.Versions(ctx, e.v.PackageKey)
		s.vers = append(s.vers, append([]resolve.Version(nil), vs...))
	}
	return s
}

func c05SameSnap(a, b *c05Snap, what string) {
	ok := true
	for i := range a.reqs {
		if len(a.reqs[i]) != len(b.reqs[i]) || len(a.vers[i]) != len(b.vers[i]) {
			ok = false
			continue
		}
		for j := range a.reqs[i] {
			ok = vAnd(ok, vAnd(a.reqs[i][j].VersionKey == b.reqs[i][j].VersionKey, a.reqs[i][j].Type.Equal(b.reqs[i][j].Type)))
		}
		for j := range a.vers[i] {
			ok = vAnd(ok, vAnd(a.vers[i][j].VersionKey == b.vers[i][j].VersionKey, a.vers[i][j].AttrSet.Equal(b.vers[i][j].AttrSet)))
		}
	}
	vAssert(ok, what+": the client reports the same requirements and versions, in the same order, as before")
}

func c05Clone(g *resolve.Graph) *resolve.Graph {
	if g == nil {
		return nil
	}
	c := &resolve.Graph{Error: g.Error}
	for _, n := range g.Nodes {
		c.Nodes = append(c.Nodes, resolve.Node{Version: n.Version, Errors: append([]resolve.NodeError(nil), n.Errors...)})
	}
	c.Edges = append(c.Edges, g.Edges...)
	return c
}

func c05SameGraph(g1, g2 *resolve.Graph, what string) {
	if g1 == nil || g2 == nil {
		vAssert(g1 == nil && g2 == nil, what+": both resolutions fail or both succeed")
		return
	}
	vAssert((g1.Error == "") == (g2.Error == ""), what+": both report a graph error or neither")
	vAssert(len(g1.Nodes) == len(g2.Nodes) && len(g1.Edges) == len(g2.Edges), what+": the same number of nodes and edges")
	if len(g1.Nodes) != len(g2.Nodes) || len(g1.Edges) != len(g2.Edges) {
		return
	}
	// Order-insensitive comparison (counting equal elements on both sides avoids sorting symbolic data):
	// every node and every edge occurs equally often in both graphs. One obligation per comparison.
	ok := len(g1.Nodes) == 0 || g1.Nodes[0].Version == g2.Nodes[0].Version
	for _, n := range g1.Nodes {
		c1, c2 := 0, 0
		for _, m := range g1.Nodes {
			c1 += vIteInt(vAnd(m.Version == n.Version, len(m.Errors) == len(n.Errors)), 1, 0)
		}
		for _, m := range g2.Nodes {
			c2 += vIteInt(vAnd(m.Version == n.Version, len(m.Errors) == len(n.Errors)), 1, 0)
		}
		ok = vAnd(ok, c1 == c2)
	}
	same := func(ga *resolve.Graph, a resolve.Edge, gb *resolve.Graph, b resolve.Edge) bool {
		return vAnd(vAnd(ga.Nodes[a.From].Version == gb.Nodes[b.From].Version, ga.Nodes[a.To].Version == gb.Nodes[b.To].Version),
			vAnd(a.Requirement == b.Requirement, a.Type.Equal(b.Type)))
	}
	for _, e := range g1.Edges {
		c1, c2 := 0, 0
		for _, f := range g1.Edges {
			c1 += vIteInt(same(g1, e, g1, f), 1, 0)
		}
		for _, f := range g2.Edges {
			c2 += vIteInt(same(g1, e, g2, f), 1, 0)
		}
		ok = vAnd(ok, c1 == c2)
	}
	vAssert(ok, what+": the same graph (root, nodes and edges)")
}

// c05Purity runs the purity clauses with the given resolver constructor.
func c05Purity(es []c05Entry, root resolve.VersionKey, mk func(resolve.Client) resolve.Resolver) {
	lc := c05Client(es, false)
	ctx := context.Background()
	before := c05Take(lc, es)
	r := mk(lc)
	g1, err1 := r.Resolve(ctx, root)
	if err1 != nil {
		g1 = nil
	}
	vCover(g1 != nil && len(g1.Nodes) > 1, "resolved a graph with dependencies")
	c05SameSnap(before, c05Take(lc, es), "after Resolve")
	g1b, err := r.Resolve(ctx, root)
	if err != nil {
		g1b = nil
	}
	c05SameGraph(c05Clone(g1), c05Clone(g1b), "asking again")
	if len(es) > 1 {
		alt := es[1+vParam("alt")%(len(es)-1)].v.VersionKey
		gAlt, errAlt := r.Resolve(ctx, alt)
		if errAlt != nil {
			gAlt = nil
		}
		vCover(true, "other root resolved in between")
		// the other root's own graph does not depend on the resolutions run before it on this resolver
		gFresh, errFresh := mk(c05Client(es, false)).Resolve(ctx, alt)
		if errFresh != nil {
			gFresh = nil
		}
		c05SameGraph(c05Clone(gAlt), c05Clone(gFresh), "a root resolved after another one, against a fresh resolver")
		g1c, err := r.Resolve(ctx, root)
		if err != nil {
			g1c = nil
		}
		c05SameGraph(c05Clone(g1), c05Clone(g1c), "after resolving another root on the same resolver")
		c05SameSnap(before, c05Take(lc, es), "after resolving another root")
	}
	lc2 := c05Client(es, true)
	g2, err := mk(lc2).Resolve(ctx, root)
	if err != nil {
		g2 = nil
	}
	c05SameGraph(c05Clone(g1), c05Clone(g2), "with the versions inserted in the opposite order")
}

func VerifC05Npm() {
	es, root := c06Entries()
	c05Purity(es, root, NewResolver)
}
