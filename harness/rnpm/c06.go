package npm

// C06: an npm resolution graph is a valid installation. The skeleton of a
// universe (who requires whom, requirement operator, dependency kind, which
// version is tagged latest or deprecated) comes from job parameters; every
// version number and every number inside a requirement is a symbolic digit, so
// one job decides the clauses for all the universes sharing that skeleton.

import (
	"context"

	"deps.dev/util/resolve"
	"deps.dev/util/resolve/dep"
	"deps.dev/util/resolve/version"
	"deps.dev/util/semver"
)

func c06PK(name string) resolve.PackageKey { return resolve.PackageKey{System: resolve.NPM, Name: name} }

var c06N = [...]string{"0", "1", "2", "3", "4", "5", "6", "7"}
var c06Names = []string{"a", "b", "c"}

// requirement operators; D is a symbolic digit
var c06Ops = []string{"*", "D.0.0", "^D.0.0", ">=D.0.0", "D.x", "latest", "<D.0.0", "~D.0.0", "^D.0.0-rc", "next"}

func c06Digit(tag string) string {
	b := vByte(tag)
	vAssume(vAnd('1' <= b, b <= '4'))
	return string([]byte{b})
}

func c06Inst(t, tag string) string {
	out := ""
	for i := 0; i < len(t); i++ {
		if t[i] == 'D' {
			out += c06Digit(tag)
		} else {
			out += t[i : i+1]
		}
	}
	return out
}

func c06Slot(tag string) (resolve.RequirementVersion, bool) {
	target := vParam(tag + "t") // 0 = none, 1..3 = a,b,c
	if target == 0 {
		return resolve.RequirementVersion{}, false
	}
	req := c06Inst(c06Ops[vParam(tag+"r")], tag+".d")
	var t dep.Type
	switch vParam(tag + "k") {
	case 1:
		t.AddAttr(dep.Opt, "")
	case 2:
		t.AddAttr(dep.Dev, "")
	case 3:
		t.AddAttr(dep.Scope, "peer")
	}
	return resolve.RequirementVersion{VersionKey: resolve.VersionKey{PackageKey: c06PK(c06Names[target-1]), VersionType: resolve.Requirement, Version: req}, Type: t}, true
}

type c06Universe struct {
	lc   *resolve.LocalClient
	root resolve.VersionKey
}

func c06Build() *c06Universe {
	lc := resolve.NewLocalClient()
	root := resolve.VersionKey{PackageKey: c06PK("r"), VersionType: resolve.Concrete, Version: "1.0.0"}
	var rr []resolve.RequirementVersion
	for s := 0; s < 3; s++ {
		if r, ok := c06Slot("r" + c06N[s]); ok {
			rr = append(rr, r)
		}
	}
	lc.AddVersion(resolve.Version{VersionKey: root}, rr)
	for pi, p := range c06Names {
		nv := vParam("nv" + c06N[pi])
		prev := ""
		for vi := 0; vi < nv; vi++ {
			d := c06Digit("ver" + c06N[pi] + c06N[vi])
			if prev != "" {
				vAssume(prev[0] <= d[0]) // listed in ascending order of major version
			}
			ver := d + ".0.0"
			if vParam("pre"+c06N[pi]) == vi {
				ver += "-rc"
			} else if prev != "" {
				vAssume(prev[0] < d[0])
			}
			prev = d
			var reqs []resolve.RequirementVersion
			if r, ok := c06Slot("p" + c06N[pi] + c06N[vi]); ok {
				reqs = append(reqs, r)
			}
			var attrs version.AttrSet
			if vParam("latest"+c06N[pi]) == vi {
				attrs.SetAttr(version.Tags, "latest")
			} else if vParam("next"+c06N[pi]) == vi {
				attrs.SetAttr(version.Tags, "next")
			}
			if vParam("blocked"+c06N[pi]) == vi {
				attrs.SetAttr(version.Blocked, "")
			}
			lc.AddVersion(resolve.Version{VersionKey: resolve.VersionKey{PackageKey: c06PK(p), VersionType: resolve.Concrete, Version: ver}, AttrSet: attrs}, reqs)
		}
	}
	return &c06Universe{lc: lc, root: root}
}

// c06Satisfies: the edge's requirement admits the version (range, tag, or exact string).
func c06Satisfies(ctx context.Context, lc *resolve.LocalClient, req string, to resolve.VersionKey) bool {
	c, cerr := semver.NPM.ParseConstraint(req)
	if cerr == nil {
		return c.Match(to.Version)
	}
	v, verr := lc.Version(ctx, to)
	if verr != nil {
		return false
	}
	tags, _ := v.GetAttr(version.Tags)
	return tags == req || to.Version == req
}

func VerifC06Resolve() {
	u := c06Build()
	lc := u.lc
	ctx := context.Background()
	r := NewResolver(lc)
	g, err := r.Resolve(ctx, u.root)
	vAssert(err == nil, "Resolve succeeds")
	if err != nil {
		return
	}
	vCover(true, "resolved")
	vObserveInt("nodes", len(g.Nodes))
	vObserveInt("edges", len(g.Edges))
	vCover(len(g.Nodes) > 2, "a graph with several nodes")
	for _, e := range g.Edges {
		vAssert(c06Satisfies(ctx, lc, e.Requirement, g.Nodes[e.To].Version), "every edge leads to a version that satisfies the edge's requirement")
	}
	for ni, n := range g.Nodes {
		reqs, rerr := lc.Requirements(ctx, n.Version)
		if rerr != nil {
			continue
		}
		for _, rq := range reqs {
			if rq.Type.HasAttr(dep.Dev) {
				continue
			}
			if s, ok := rq.Type.GetAttr(dep.Scope); ok && s == "peer" {
				continue
			}
			if rq.Type.HasAttr(dep.Opt) {
				continue // an optional requirement nothing satisfies is dropped silently
			}
			found := false
			for _, e := range g.Edges {
				if int(e.From) == ni && g.Nodes[e.To].Version.PackageKey == rq.PackageKey && e.Requirement == rq.Version {
					found = true
				}
			}
			for _, ne := range n.Errors {
				if ne.Req.PackageKey == rq.PackageKey {
					found = true
				}
			}
			vAssert(found, "every non-dev, non-peer requirement of an installed version is resolved by an edge or reported as an error")
		}
	}
	reach := make([]bool, len(g.Nodes))
	reach[0] = true
	for round := 0; round < len(g.Nodes); round++ {
		for _, e := range g.Edges {
			if reach[e.From] {
				reach[e.To] = true
			}
		}
	}
	for i := range reach {
		vAssert(reach[i], "every node is reachable from the root")
	}
	// The root's own requirements are installed afresh, in order, on an empty tree: the version tagged
	// latest when it satisfies the requirement, otherwise the highest satisfying version that is not
	// deprecated (the highest one if all are).
	rootReqs, _ := lc.Requirements(ctx, u.root)
	seen := map[resolve.PackageKey]bool{}
	for _, rq := range rootReqs {
		if s, ok := rq.Type.GetAttr(dep.Scope); ok && s == "peer" {
			continue
		}
		if seen[rq.PackageKey] {
			continue
		}
		seen[rq.PackageKey] = true
		var chosen *resolve.VersionKey
		for _, e := range g.Edges {
			if e.From == 0 && g.Nodes[e.To].Version.PackageKey == rq.PackageKey && e.Requirement == rq.Version {
				vk := g.Nodes[e.To].Version
				chosen = &vk
			}
		}
		if chosen == nil {
			continue
		}
		if _, cerr := semver.NPM.ParseConstraint(rq.Version); cerr != nil {
			continue // a tag or exact string: checked by the satisfaction clause
		}
		vs, _ := lc.Versions(ctx, rq.PackageKey)
		var latest, bestOK, best *resolve.Version
		for i := range vs {
			v := &vs[i]
			if !c06Satisfies(ctx, lc, rq.Version, v.VersionKey) {
				continue
			}
			tags, _ := v.GetAttr(version.Tags)
			if tags == "latest" {
				latest = v
			}
			if best == nil || semver.NPM.Compare(best.Version, v.Version) < 0 {
				best = v
			}
			if !v.HasAttr(version.Blocked) && (bestOK == nil || semver.NPM.Compare(bestOK.Version, v.Version) < 0) {
				bestOK = v
			}
		}
		want := best
		if bestOK != nil {
			want = bestOK
		}
		if latest != nil {
			want = latest
		}
		if want != nil {
			vCover(true, "fresh install checked")
			vAssert(chosen.Version == want.Version, "a dependency installed afresh is the latest-tagged version if it satisfies, else the highest satisfying non-deprecated one")
		}
	}
}
