package npm

// C04 for the resolver: resolution over a universe whose requirement text (and, for PyPI, marker text) is
// arbitrary bytes returns a graph or an error, never panics or hangs.

import (
	"context"

	"deps.dev/util/resolve"
	"deps.dev/util/resolve/dep"
)

func VerifC04ResolveRequirement() {
	pk := func(n string) resolve.PackageKey { return resolve.PackageKey{System: resolve.NPM, Name: n} }
	vk := func(n, v string) resolve.VersionKey {
		return resolve.VersionKey{PackageKey: pk(n), VersionType: resolve.Concrete, Version: v}
	}
	var t dep.Type
	if m := vParam("marker"); m >= 0 {
		t.AddAttr(dep.Environment, vBytes("m", m))
	}
	req := resolve.RequirementVersion{VersionKey: resolve.VersionKey{PackageKey: pk("a"), VersionType: resolve.Requirement, Version: vBytes("r", vParam("n"))}, Type: t}
	lc := resolve.NewLocalClient()
	lc.AddVersion(resolve.Version{VersionKey: vk("r", "1.0.0")}, []resolve.RequirementVersion{req})
	lc.AddVersion(resolve.Version{VersionKey: vk("a", "1.0.0")}, nil)
	lc.AddVersion(resolve.Version{VersionKey: vk("a", "2.0.0")}, []resolve.RequirementVersion{req})
	g, err := NewResolver(lc).Resolve(context.Background(), vk("r", "1.0.0"))
	vObserveBool("ok", err == nil)
	if err == nil {
		vCover(true, "accepted")
		_ = len(g.Nodes)
	} else {
		vCover(true, "rejected")
	}
}
