package npm

// C18, end to end and sequential: the npm resolver over the API-backed client,
// fed by an in-process stand-in for the Insights service, returns the same graph
// as over the in-memory client loaded with the same data. The stand-in answers
// GetPackage / GetVersion / GetRequirements from the universe; nothing goes
// through gRPC itself (the engine does not execute grpc; the stand-in
// implements the generated client interface directly).

import (
	"context"

	"google.golang.org/grpc"

	pb "deps.dev/api/v3"
	"deps.dev/util/resolve"
	"deps.dev/util/resolve/dep"
	"deps.dev/util/resolve/version"
)

type c18Fake struct {
	es         []c06Entry
	bundleRoot bool // the root version (package r) bundles a package z 9.0.0
}

func (f *c18Fake) GetPackage(ctx context.Context, in *pb.GetPackageRequest, opts ...grpc.CallOption) (*pb.Package, error) {
	p := &pb.Package{PackageKey: in.PackageKey}
	for _, e := range f.es {
		if e.v.Name != in.PackageKey.Name {
			continue
		}
		tags, _ := e.v.GetAttr(version.Tags)
		p.Versions = append(p.Versions, &pb.Package_Version{
			VersionKey: &pb.VersionKey{System: pb.System_NPM, Name: e.v.Name, Version: e.v.Version},
			IsDefault:  tags == "latest",
		})
	}
	return p, nil
}

func (f *c18Fake) GetVersion(ctx context.Context, in *pb.GetVersionRequest, opts ...grpc.CallOption) (*pb.Version, error) {
	for _, e := range f.es {
		if e.v.Name == in.VersionKey.Name && e.v.Version == in.VersionKey.Version {
			tags, _ := e.v.GetAttr(version.Tags)
			return &pb.Version{VersionKey: in.VersionKey, IsDefault: tags == "latest"}, nil
		}
	}
	// every version the resolvers ask for exists in these universes
	panic("verif: stand-in service asked for an unknown version")
}

func (f *c18Fake) GetRequirements(ctx context.Context, in *pb.GetRequirementsRequest, opts ...grpc.CallOption) (*pb.Requirements, error) {
	for _, e := range f.es {
		if e.v.Name != in.VersionKey.Name || e.v.Version != in.VersionKey.Version {
			continue
		}
		deps := &pb.Requirements_NPM_Dependencies{}
		for _, r := range e.reqs {
			name, req := r.Name, r.Version
			if al, ok := r.Type.GetAttr(dep.KnownAs); ok {
				name, req = al, "npm:"+r.Name+"@"+r.Version
			}
			d := &pb.Requirements_NPM_Dependencies_Dependency{Name: name, Requirement: req}
			scope, _ := r.Type.GetAttr(dep.Scope)
			switch {
			case scope == "bundle":
				deps.BundleDependencies = append(deps.BundleDependencies, r.Name)
			case scope == "peer":
				deps.PeerDependencies = append(deps.PeerDependencies, d)
			case r.Type.HasAttr(dep.Dev):
				deps.DevDependencies = append(deps.DevDependencies, d)
			case r.Type.HasAttr(dep.Opt):
				deps.OptionalDependencies = append(deps.OptionalDependencies, d)
			default:
				deps.Dependencies = append(deps.Dependencies, d)
			}
		}
		reqs := &pb.Requirements_NPM{Dependencies: deps}
		if f.bundleRoot && e.v.Name == "r" {
			reqs.Bundled = append(reqs.Bundled, &pb.Requirements_NPM_Bundle{Path: "node_modules/z", Name: "z", Version: "9.0.0",
				Dependencies: &pb.Requirements_NPM_Dependencies{}})
		}
		return &pb.Requirements{Npm: reqs}, nil
	}
	panic("verif: stand-in service asked for the requirements of an unknown version")
}

func (f *c18Fake) GetDependencies(ctx context.Context, in *pb.GetDependenciesRequest, opts ...grpc.CallOption) (*pb.Dependencies, error) {
	return nil, nil
}
func (f *c18Fake) GetProject(ctx context.Context, in *pb.GetProjectRequest, opts ...grpc.CallOption) (*pb.Project, error) {
	return nil, nil
}
func (f *c18Fake) GetProjectPackageVersions(ctx context.Context, in *pb.GetProjectPackageVersionsRequest, opts ...grpc.CallOption) (*pb.ProjectPackageVersions, error) {
	return nil, nil
}
func (f *c18Fake) GetAdvisory(ctx context.Context, in *pb.GetAdvisoryRequest, opts ...grpc.CallOption) (*pb.Advisory, error) {
	return nil, nil
}
func (f *c18Fake) Query(ctx context.Context, in *pb.QueryRequest, opts ...grpc.CallOption) (*pb.QueryResult, error) {
	return nil, nil
}

// VerifC18EndToEnd: universes of the second C06 generation restricted to what the API can say about a version
// (the latest tag; no next tag, no deprecation) and about a requirement (the four sections, bundleDependencies
// by name, aliases).
// c18Expressible: a package.json section is a map from installed name to requirement, so one version cannot
// state two requirements of different packages under one installed name (a bundleDependencies entry b next to an
// alias b of another package); the service could not report such a version.
func c18Expressible(es []c06Entry) bool {
	for _, e := range es {
		for i, a := range e.reqs {
			na := a.Name
			if al, ok := a.Type.GetAttr(dep.KnownAs); ok && al != "" {
				na = al
			}
			for _, b := range e.reqs[i+1:] {
				nb := b.Name
				if al, ok := b.Type.GetAttr(dep.KnownAs); ok && al != "" {
					nb = al
				}
				if na == nb && a.Name != b.Name {
					return false
				}
			}
		}
	}
	return true
}

func VerifC18EndToEnd() {
	es, root := c06Entries2()
	if !c18Expressible(es) {
		return
	}
	// every package exists for the service, also one without versions: keep to universes in which each required
	// package has at least one version, so that the stand-in never has to say NotFound through grpc status
	ctx := context.Background()
	lc := c06Client(es, false)
	g1, err1 := NewResolver(lc).Resolve(ctx, root)
	api := resolve.NewAPIClient(&c18Fake{es: es})
	g2, err2 := NewResolver(api).Resolve(ctx, root)
	if !vEngine() {
		for _, e := range es {
			s := e.v.String() + " " + e.v.AttrSet.String() + " <-"
			for _, r := range e.reqs {
				s += " [" + r.String() + " " + r.Type.String() + "]"
			}
			vNote(s)
		}
		if err1 == nil {
			vNote("in-memory client:\n" + g1.String())
		} else {
			vNote("in-memory client: " + err1.Error())
		}
		if err2 == nil {
			vNote("API-backed client:\n" + g2.String())
		} else {
			vNote("API-backed client: " + err2.Error())
		}
	}
	vAssert((err1 == nil) == (err2 == nil), "both clients lead to a graph or both to an error")
	if err1 != nil || err2 != nil {
		return
	}
	vCover(len(g1.Nodes) > 2, "a graph with several nodes through both clients")
	c05SameGraph(c05Clone(g1), c05Clone(g2), "resolving through the API-backed client and through the in-memory client")
}

// VerifC18Shared: the race clause of C18, decided as the shared-state discipline (see c05shared.go): one npm
// Resolve through an API-backed client that other goroutines share (optionally warmed up by an earlier
// resolution) writes the client's state only under its lock and reads what is written under a lock. The root
// version bundles a package, so that the client's table of bundled versions is written. The native replay runs
// eight concurrent resolutions on one client under the race detector.
func VerifC18Shared() {
	es, root := c06Entries2()
	if !c18Expressible(es) {
		return
	}
	f := &c18Fake{es: es, bundleRoot: true}
	api := resolve.NewAPIClient(f)
	alt := es[1+vParam("alt")%(len(es)-1)].v.VersionKey
	c05Shared(api, root, alt, NewResolver, false)
}
