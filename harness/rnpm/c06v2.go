package npm

// C06, second generation: richer universes (up to four packages, up to three
// versions each, two requirement slots per version and four on the root,
// optional/dev/peer/bundle-scoped/dev+optional kinds, aliases, several
// requirements of one version on one package where package.json merging gives
// them a defined meaning) and the two install-tree clauses, observed through
// the verif-tagged hook at the end of Resolve (util/resolve/npm/verif_hook.go).

import (
	"context"

	"deps.dev/util/resolve"
	"deps.dev/util/resolve/dep"
	"deps.dev/util/resolve/version"
	"deps.dev/util/semver"
)

var c06Names2 = []string{"a", "b", "c", "d"}
var c06Aliases = []string{"", "x", "y", "b"} // alias index 3 collides with the name of a real package

// requirement operators of the second generation; D is a symbolic digit
var c06Ops2 = []string{"*", "D.0.0", "^D.0.0", ">=D.0.0", "D.x", "latest", "<D.0.0", "~D.0.0", "^D.0.0-rc", "next",
	">=D.0.0-rc", "D.1.0", "<=D.1.0", "D.0.0 || D.0.0", ">D.0.0", "D.0.x", "~D.1.0", "D.0.0 - D.1.0"}

const (
	c06KReg    = 0
	c06KOpt    = 1
	c06KDev    = 2
	c06KPeer   = 3
	c06KBundle = 4
	c06KDevOpt = 5
)

func c06Digit3(tag string) string {
	b := vByte(tag)
	vAssume(vAnd('1' <= b, b <= '3'))
	return string([]byte{b})
}

func c06Slot2(tag string) (resolve.RequirementVersion, bool) {
	target := vParam(tag + "t") // 0 = none, 1..4 = a,b,c,d
	if target == 0 {
		return resolve.RequirementVersion{}, false
	}
	req := ""
	conc := vParam(tag + "c") // 0: the digits of this requirement are symbolic; 1..3: this concrete digit
	for _, ch := range []byte(c06Ops2[vParam(tag+"r")]) {
		if ch == 'D' && conc != 0 {
			req += c06N[conc]
		} else if ch == 'D' {
			req += c06Digit3(tag + ".d")
		} else {
			req += string([]byte{ch})
		}
	}
	var t dep.Type
	switch vParam(tag + "k") {
	case c06KOpt:
		t.AddAttr(dep.Opt, "")
	case c06KDev:
		t.AddAttr(dep.Dev, "")
	case c06KPeer:
		t.AddAttr(dep.Scope, "peer")
	case c06KBundle:
		t.AddAttr(dep.Scope, "bundle")
	case c06KDevOpt:
		t.AddAttr(dep.Dev, "")
		t.AddAttr(dep.Opt, "")
	}
	if al := vParam(tag + "a"); al != 0 {
		t.AddAttr(dep.KnownAs, c06Aliases[al])
	}
	return resolve.RequirementVersion{VersionKey: resolve.VersionKey{PackageKey: c06PK(c06Names2[target-1]), VersionType: resolve.Requirement, Version: req}, Type: t}, true
}

// c06Entries2 lists the versions of a second-generation universe.
func c06Entries2() ([]c06Entry, resolve.VersionKey) {
	var out []c06Entry
	root := resolve.VersionKey{PackageKey: c06PK("r"), VersionType: resolve.Concrete, Version: "1.0.0"}
	var rr []resolve.RequirementVersion
	for s := 0; s < 4; s++ {
		if r, ok := c06Slot2("r" + c06N[s]); ok {
			rr = append(rr, r)
		}
	}
	out = append(out, c06Entry{v: resolve.Version{VersionKey: root}, reqs: rr})
	np := vParam("np")
	for pi := 0; pi < np; pi++ {
		p := c06Names2[pi]
		nv := vParam("nv" + c06N[pi])
		for vi := 0; vi < nv; vi++ {
			tag := c06N[pi] + c06N[vi]
			// Version strings are concrete in this generation (the generator keeps them distinct per package):
			// what stays symbolic is every digit inside a requirement.
			minor := vParam("mi" + tag)
			pre := vParam("pr" + tag)
			ver := c06N[vParam("mj"+tag)] + "." + c06N[minor] + ".0"
			if pre != 0 {
				ver += "-rc"
			}
			var reqs []resolve.RequirementVersion
			for s := 0; s < 2; s++ {
				if r, ok := c06Slot2("p" + tag + "s" + c06N[s]); ok {
					reqs = append(reqs, r)
				}
			}
			var attrs version.AttrSet
			if vParam("latest"+c06N[pi]) == vi {
				attrs.SetAttr(version.Tags, "latest")
			} else if vParam("next"+c06N[pi]) == vi {
				attrs.SetAttr(version.Tags, "next")
			}
			if vParam("bl"+tag) != 0 {
				attrs.SetAttr(version.Blocked, "")
			}
			if bw := vParam("bn" + tag); bw != 0 && len(reqs) > 0 {
				// this version bundles a copy (version bw.0.0) of the package its first requirement names: a
				// derived package p>ver>name with that one version, and a regular requirement on it
				name := reqs[0].Name
				mangled := c06PK(p + ">" + ver + ">" + name)
				bver := c06N[bw] + ".0.0"
				var battrs version.AttrSet
				battrs.SetAttr(version.DerivedFrom, name)
				var breqs []resolve.RequirementVersion
				if r, ok := c06Slot2("b" + tag); ok {
					breqs = append(breqs, r)
				}
				out = append(out, c06Entry{v: resolve.Version{VersionKey: resolve.VersionKey{PackageKey: mangled, VersionType: resolve.Concrete, Version: bver}, AttrSet: battrs}, reqs: breqs})
				reqs = append(reqs, resolve.RequirementVersion{VersionKey: resolve.VersionKey{PackageKey: mangled, VersionType: resolve.Requirement, Version: bver}})
			}
			out = append(out, c06Entry{v: resolve.Version{VersionKey: resolve.VersionKey{PackageKey: c06PK(p), VersionType: resolve.Concrete, Version: ver}, AttrSet: attrs}, reqs: reqs})
		}
	}
	return out, root
}

// c06Effective: the requirements of one version that an installation must honour, after the merge of
// package.json sections: dev and peer requirements are not followed; an optional requirement on a package
// replaces a regular one on the same package; a bundle-scoped one counts only without a regular one.
func c06Effective(reqs []resolve.RequirementVersion) []resolve.RequirementVersion {
	var out []resolve.RequirementVersion
	for _, rq := range reqs {
		if rq.Type.HasAttr(dep.Dev) || c06Mangled(rq.Name) {
			continue // a requirement on a derived package is the content of a bundle, not a dependency to resolve
		}
		scope, _ := rq.Type.GetAttr(dep.Scope)
		if scope == "peer" {
			continue
		}
		overridden := false
		for _, o := range reqs {
			if o.Type.HasAttr(dep.Dev) || o.Name != rq.Name {
				continue
			}
			if !rq.Type.HasAttr(dep.Opt) && o.Type.HasAttr(dep.Opt) {
				overridden = true
			}
			if scope == "bundle" && o.Type.IsRegular() {
				overridden = true
			}
		}
		if !overridden {
			out = append(out, rq)
		}
	}
	return out
}

func c06Mangled(name string) bool {
	for i := 0; i < len(name); i++ {
		if name[i] == '>' {
			return true
		}
	}
	return false
}

func c06Want(ctx context.Context, lc *resolve.LocalClient, rq resolve.VersionKey) *resolve.Version {
	vs, _ := lc.Versions(ctx, rq.PackageKey)
	var latest, bestOK, best *resolve.Version
	for i := range vs {
		v := &vs[i]
		if !c06Satisfies(ctx, lc, rq.Version, v.VersionKey) {
			continue
		}
		tags, _ := v.GetAttr(version.Tags)
		if tags == "latest" {
			latest = v
		}
		if best == nil || semver.NPM.Compare(best.Version, v.Version) < 0 {
			best = v
		}
		if !v.HasAttr(version.Blocked) && (bestOK == nil || semver.NPM.Compare(bestOK.Version, v.Version) < 0) {
			bestOK = v
		}
	}
	want := best
	if bestOK != nil {
		want = bestOK
	}
	if latest != nil {
		want = latest
	}
	return want
}

// c06Lookup is Node's module lookup in the install tree: from the directory of the dependent upwards, the
// first node_modules entry of the given name.
func c06Lookup(from *treeNode, name string) *treeNode {
	for n := from; n != nil; n = n.parent {
		for pk, c := range n.children {
			if pk.Name == name {
				return c
			}
		}
		if c := n.alias[name]; c != nil {
			return c
		}
	}
	return nil
}

// c06Collect lists the tree nodes below n together with the name of the directory each is installed in.
func c06Collect(n *treeNode, dir string, depth int, out *[]*treeNode, dirs *[]string, maxDepth *int) {
	if n.id == 0 && n.parent != nil {
		return // a bundled copy nothing uses: it is reported in Graph.Error and is no node of the graph
	}
	*out = append(*out, n)
	*dirs = append(*dirs, dir)
	if depth > *maxDepth {
		*maxDepth = depth
	}
	for pk, c := range n.children {
		c06Collect(c, pk.Name, depth+1, out, dirs, maxDepth)
	}
	for al, c := range n.alias {
		c06Collect(c, al, depth+1, out, dirs, maxDepth)
	}
}

// c06BundleHomes: the content of a bundle sits in the directory of the version that ships it, and every version
// in the tree has the content of its own bundle there. Walks the whole tree, also the copies nothing uses.
func c06BundleHomes(ctx context.Context, lc *resolve.LocalClient, n *treeNode, home string) {
	own := n.ver.VersionKey
	if n.bundled != nil {
		own = n.bundled.Version.VersionKey
	} else {
		home = n.ver.Name + ">" + n.ver.Version + ">"
	}
	kids := make([]*treeNode, 0, len(n.children)+len(n.alias))
	for _, c := range n.children {
		kids = append(kids, c)
	}
	for _, c := range n.alias {
		kids = append(kids, c)
	}
	for _, c := range kids {
		if c.bundled != nil {
			m := c.bundled.Version.Name
			vAssert(len(m) > len(home) && m[:len(home)] == home, "a bundled copy sits in the directory of the version that ships it")
		}
	}
	if reqs, err := lc.Requirements(ctx, own); err == nil {
		for _, rq := range reqs {
			if !c06Mangled(rq.Name) {
				continue
			}
			// a copy that does not satisfy the version's own requirement on that name is discarded and replaced
			name := rq.Name
			for i := len(name) - 1; i >= 0; i-- {
				if name[i] == '>' {
					name = name[i+1:]
					break
				}
			}
			replaced := false
			for _, e := range c06Effective(reqs) {
				if e.Name != name {
					continue
				}
				if c, cerr := semver.NPM.ParseConstraint(e.Version); cerr != nil || !c.Match(rq.Version) {
					replaced = true
				}
			}
			if replaced {
				continue
			}
			found := false
			for _, c := range kids {
				if c.bundled != nil && c.bundled.Version.PackageKey == rq.PackageKey && c.bundled.Version.Version == rq.Version {
					found = true
				}
			}
			vCover(true, "the bundle of an installed version looked for")
			vAssert(found, "an installed version has the content of its own bundle in its directory")
		}
	}
	for _, c := range kids {
		c06BundleHomes(ctx, lc, c, home)
	}
}

func VerifC06Install() {
	es, rootVK := c06Entries2()
	lc := c06Client(es, false)
	ctx := context.Background()
	var tree *treeNode
	verifTreeCallback = func(root *treeNode) { tree = root }
	g, err := NewResolver(lc).Resolve(ctx, rootVK)
	verifTreeCallback = nil
	if !vEngine() {
		for _, e := range es {
			s := e.v.String() + " " + e.v.AttrSet.String() + " <-"
			for _, r := range e.reqs {
				s += " [" + r.String() + " " + r.Type.String() + "]"
			}
			vNote(s)
		}
		if err != nil {
			vNote("error: " + err.Error())
		} else {
			vNote(g.String())
		}
	}
	if err != nil {
		// The property speaks of the graphs Resolve returns; that it returns an error and does not panic is C04's.
		vCover(true, "Resolve reported an error instead of a graph")
		return
	}
	vCover(true, "resolved")
	vObserveInt("nodes", len(g.Nodes))
	vObserveInt("edges", len(g.Edges))
	vCover(len(g.Nodes) > 3, "a graph with several nodes")

	// ---- graph clauses
	// A node enters the graph together with the edge that installs it afresh: the first edge that leads to it.
	fresh := make([]bool, len(g.Edges))
	created := make([]bool, len(g.Nodes))
	for i, e := range g.Edges {
		if e.To != 0 && !created[e.To] {
			created[e.To] = true
			fresh[i] = true
		}
	}
	for i, e := range g.Edges {
		if e.Requirement == "*" && !fresh[i] {
			continue // a `*` requirement reuses whatever copy is already installed
		}
		vAssert(c06Satisfies(ctx, lc, e.Requirement, g.Nodes[e.To].Version), "every edge leads to a version that satisfies the edge's requirement")
	}
	reach := make([]bool, len(g.Nodes))
	reach[0] = true
	for round := 0; round < len(g.Nodes); round++ {
		for _, e := range g.Edges {
			if reach[e.From] {
				reach[e.To] = true
			}
		}
	}
	for i := range reach {
		vAssert(reach[i], "every node is reachable from the root")
	}
	for i, e := range g.Edges {
		if !fresh[i] {
			continue
		}
		if _, cerr := semver.NPM.ParseConstraint(e.Requirement); cerr != nil {
			continue // a tag or an exact string: covered by the satisfaction clause
		}
		if c06Mangled(g.Nodes[e.To].Version.Name) {
			vCover(true, "a bundled copy used")
			continue // the copy a bundle brought along, not a pick from the registry
		}
		rq := resolve.VersionKey{PackageKey: g.Nodes[e.To].Version.PackageKey, VersionType: resolve.Requirement, Version: e.Requirement}
		if want := c06Want(ctx, lc, rq); want != nil {
			vCover(true, "fresh install checked")
			vAssert(g.Nodes[e.To].Version.Version == want.Version, "a dependency installed afresh is the latest-tagged version if it satisfies, else the highest satisfying non-deprecated one")
		}
	}

	// ---- install-tree clauses
	vAssert(tree != nil, "the install tree was handed over")
	if tree == nil {
		return
	}
	if vParam("anybundle") != 0 {
		c06BundleHomes(ctx, lc, tree, "")
	}
	var all []*treeNode
	var dirs []string
	maxDepth := 0
	c06Collect(tree, "", 0, &all, &dirs, &maxDepth)
	vObserveInt("tree nodes", len(all))
	vCover(maxDepth >= 2, "a nested install (depth 2)")
	vCover(maxDepth >= 3, "a nested install below a nested install (depth 3)")
	bundles := vParam("anybundle") != 0
	vAssert(len(all) == len(g.Nodes), "the install tree holds exactly the graph's nodes")
	byID := make([]*treeNode, len(g.Nodes))
	dirOf := make([]string, len(g.Nodes))
	for k, tn := range all {
		id := int(tn.id)
		ok := id >= 0 && id < len(g.Nodes) && byID[id] == nil
		vAssert(ok, "every tree node is one graph node")
		if !ok {
			return
		}
		byID[id] = tn
		dirOf[id] = dirs[k]
		if tn.bundled == nil {
			vAssert(g.Nodes[id].Version == tn.ver.VersionKey, "tree node and graph node hold the same version")
		}
		if bundles {
			continue // the two install-tree clauses are stated for universes without bundled packages
		}
		for al := range tn.alias {
			for pk := range tn.children {
				vAssert(pk.Name != al, "no directory holds two packages of one name")
			}
		}
		for pk, c := range tn.children {
			vAssert(c.parent == tn && c.pkg == pk, "children are filed under their own package in their parent's directory")
		}
	}
	// Every requirement an installation must honour has an edge or an error. As in npm itself, a requirement is
	// resolved by the copy installed under the required name (the alias if there is one), whatever package that
	// copy is of, so the edge is recognised by dependent, requirement text and the directory name of its target.
	for ni, n := range g.Nodes {
		reqs, rerr := lc.Requirements(ctx, n.Version)
		if rerr != nil {
			continue
		}
		for _, rq := range c06Effective(reqs) {
			name := rq.Name
			if al, ok := rq.Type.GetAttr(dep.KnownAs); ok && al != "" {
				name = al
			}
			found := false
			for _, e := range g.Edges {
				if int(e.From) == ni && e.Requirement == rq.Version && dirOf[e.To] == name {
					found = true
				}
			}
			for _, ne := range n.Errors {
				if ne.Req.PackageKey == rq.PackageKey {
					found = true
				}
			}
			vAssert(found, "every non-dev, non-peer requirement of an installed version is resolved by an edge or reported as an error")
		}
	}
	for _, e := range g.Edges {
		from := byID[e.From]
		if from == nil {
			continue
		}
		// The dependent asks Node for the name its requirement is known by: the alias, or else the package name,
		// which the clause above has tied to the directory name of the edge's target.
		name := dirOf[e.To]
		if al, ok := e.Type.GetAttr(dep.KnownAs); ok && al != "" {
			vAssert(name == al, "an aliased requirement is resolved by a copy installed under the alias")
		}
		if bundles {
			continue
		}
		found := c06Lookup(from, name)
		vCover(found != nil && found.parent != nil && found.parent.parent != nil, "an edge resolved to a nested install")
		vAssert(found != nil && found.id == e.To, "Node's lookup from the dependent lands on the node the edge points to")
	}
}

func VerifC05Npm2() {
	es, root := c06Entries2()
	c05Purity(es, root, NewResolver)
}
