package schema

// C04 for the schema and graph text parsers: a value or an error for every
// input, never a panic or a hang. Inputs are strings of a concrete length
// whose bytes are symbolic: either all 256 values, or (param "alpha") drawn
// from the alphabet the two grammars are made of, which lets longer strings
// reach the row and indentation logic.

import "deps.dev/util/resolve"

const c04Alphabet = "\t\n |@$:#a1E\""

// c04Small is the alphabet of the fields of the row templates: a letter, the label sign, a separator and a space.
const c04Small = "a$@ "

func c04Field(tag string) string {
	s := vBytes(tag, 1)
	ok := false
	for k := 0; k < len(c04Small); k++ {
		ok = vOr(ok, s[0] == c04Small[k])
	}
	vAssume(ok)
	return s
}

func c04Text(tag string, n int) string {
	s := vBytes(tag, n)
	if vParam("alpha") != 0 {
		for i := 0; i < n; i++ {
			ok := false
			for k := 0; k < len(c04Alphabet); k++ {
				ok = vOr(ok, s[i] == c04Alphabet[k])
			}
			vAssume(ok)
		}
	}
	return s
}

func VerifC04ParseResolve() {
	s := c04Text("s", vParam("n"))
	g, err := ParseResolve(s, resolve.NPM)
	vObserveBool("ok", err == nil)
	if err == nil {
		vCover(true, "accepted")
		vObserveInt("nodes", len(g.Nodes))
		_ = g.String()
	} else {
		vCover(true, "rejected")
	}
}

// VerifC04ParseResolveRows: well-formed first row ("a 1"), then rows made of a symbolic number of tabs and a
// short symbolic tail, so that the depth/label/error bookkeeping is reached with little input.
func VerifC04ParseResolveRows() {
	text := "a 1"
	switch vParam("first") { // the first row: a root node, an error row, a label reference, or a typed row
	case 1:
		text = c04Field("f0n") + "@" + c04Field("f0q") + " ERROR: " + c04Field("f0e")
	case 2:
		text = "$" + c04Field("f0l") + "@" + c04Field("f0q")
	case 3:
		text = c04Field("f0t") + "|" + c04Field("f0n") + " " + c04Field("f0c")
	}
	rows := vParam("rows")
	for r := 0; r < rows; r++ {
		tag := string([]byte{'r', byte('0' + r)})
		depth := vParam(tag + "d")
		line := ""
		for k := 0; k < depth; k++ {
			line += "\t"
		}
		switch vParam(tag + "k") {
		case 0: // node row
			line += c04Field(tag+"n") + "@" + c04Field(tag+"q") + " " + c04Field(tag+"c")
		case 1: // error row
			line += c04Field(tag+"n") + "@" + c04Field(tag+"q") + " ERROR: " + c04Field(tag+"e")
		case 2: // label reference
			line += "$" + c04Field(tag+"l") + "@" + c04Field(tag+"q")
		case 3: // labelled node row
			line += c04Field(tag+"l") + ": " + c04Field(tag+"n") + "@" + c04Field(tag+"q") + " " + c04Field(tag+"c")
		case 4: // typed row with free tail
			line += c04Text(tag+"t", vParam(tag+"tn")) + "|" + c04Text(tag+"x", vParam(tag+"xn"))
		case 5: // free row
			line += c04Text(tag+"x", vParam(tag+"xn"))
		}
		text += "\n" + line
	}
	g, err := ParseResolve(text, resolve.NPM)
	vObserveBool("ok", err == nil)
	if err == nil {
		vCover(true, "accepted")
		vCover(len(g.Nodes) > 1, "a graph with several nodes parsed")
		_ = g.String()
	} else {
		vCover(true, "rejected")
	}
}

func VerifC04SchemaNew() {
	s := c04Text("s", vParam("n"))
	sc, err := New(s, resolve.System(vParam("sys")))
	vObserveBool("ok", err == nil)
	if err == nil {
		vCover(true, "accepted")
		lc := sc.NewClient()
		_ = sc.ValidateClient(lc)
	} else {
		vCover(true, "rejected")
	}
}

// VerifC04SchemaNewRows: a universe text with a package row, a version row and rows at the import level whose
// text is templated (typed imports, scoped names, attribute rows, bare pieces), so that the import-line logic
// of schema.New is reached.
func VerifC04SchemaNewRows() {
	text := "a\n\t1"
	if vParam("vattr") != 0 {
		text = "a\n\t" + c04Text("va", 1) + "|1"
	}
	rows := vParam("rows")
	for r := 0; r < rows; r++ {
		tag := string([]byte{'i', byte('0' + r)})
		line := "\t\t"
		switch vParam(tag + "k") {
		case 0: // name@version
			line += c04Field(tag+"n") + "@" + c04Field(tag+"q")
		case 1: // type|name@version
			line += c04Text(tag+"t", vParam(tag+"tn")) + "|" + c04Field(tag+"n") + "@" + c04Field(tag+"q")
		case 2: // type| and nothing else
			line += c04Text(tag+"t", vParam(tag+"tn")) + "|"
		case 3: // scoped name
			line += "@" + c04Field(tag+"n") + "/" + c04Field(tag+"m") + "@" + c04Field(tag+"q")
		case 4: // attribute row
			line += "ATTR:" + c04Text(tag+"x", vParam(tag+"xn"))
		case 5: // free text
			line += c04Text(tag+"x", vParam(tag+"xn"))
		case 6: // typed scoped name
			line += c04Text(tag+"t", vParam(tag+"tn")) + "|@" + c04Field(tag+"n") + "/" + c04Field(tag+"m") + "@" + c04Field(tag+"q")
		case 7: // a deeper row
			line += "\t" + c04Field(tag+"n")
		}
		text += "\n" + line
	}
	sc, err := New(text, resolve.System(vParam("sys")))
	vObserveBool("ok", err == nil)
	if err == nil {
		vCover(true, "accepted")
		lc := sc.NewClient()
		_ = sc.ValidateClient(lc)
	} else {
		vCover(true, "rejected")
	}
}
