package pypi

// C16 (requirement strings): ParseDependency and CanonPackageName against the
// PEP 508 / PEP 503 decomposition known by construction of the input.

func c16Sym(t, tag string) string {
	sym := vBytes(tag, len(t))
	out := ""
	for i := 0; i < len(t); i++ {
		b := sym[i]
		switch t[i] {
		case 'd':
			vAssume(vAnd('0' <= b, b <= '9'))
			out += string([]byte{b})
		case 'l':
			vAssume(vAnd('a' <= b, b <= 'z'))
			out += string([]byte{b})
		case 'U':
			vAssume(vAnd('A' <= b, b <= 'Z'))
			out += string([]byte{b})
		case 'A': // any name character that may start or end a name
			vAssume(vOr(vOr(vAnd('a' <= b, b <= 'z'), vAnd('A' <= b, b <= 'Z')), vAnd('0' <= b, b <= '9')))
			out += string([]byte{b})
		case 'S': // a name separator
			vAssume(vOr(vOr(b == '-', b == '_'), b == '.'))
			out += string([]byte{b})
		case 'W': // PEP 508 whitespace
			vAssume(vOr(b == ' ', b == '\t'))
			out += string([]byte{b})
		default:
			out += t[i : i+1]
		}
	}
	return out
}

// c16RefCanon: PEP 503: lower-case, runs of [-_.] become one '-'. The name
// templates fix where the runs are, so the length is known.
func c16RefCanon(name string) string {
	out := ""
	run := false
	for i := 0; i < len(name); i++ {
		c := name[i]
		if c == '-' || c == '_' || c == '.' {
			if !run {
				out += "-"
			}
			run = true
			continue
		}
		run = false
		lower := byte(vIteInt(vAnd('A' <= c, c <= 'Z'), int(c)+32, int(c)))
		out += string([]byte{lower})
	}
	return out
}

var c16Names = []string{"A", "AA", "ASA", "ASSA", "UlSd", "ASASA", "AASSSA"}
var c16Extras = []string{"", "[]", "[l]", "[l,l]", "[Wl W,Wl]", "[lWW]"}
var c16Specs = []string{"", ">=d.d", "==d.d.d", "(>=d.d)", ">=d,<d.d", "(>d.d,!=d.d.d)", "~=d.d", "<d.d.ddev", "==d.*"}
var c16Markers = []string{"", ";python_version<\"d\"", ";Wextra=='l'", ";os_name=='ll' and python_version>='d.d'", ";"}

func c16Strip(s string) string { // the spec without one enclosing pair of parentheses
	if len(s) >= 2 && s[0] == '(' && s[len(s)-1] == ')' {
		return s[1 : len(s)-1]
	}
	return s
}

func c16Trim(s string) string {
	for len(s) > 0 && (s[0] == ' ' || s[0] == '\t') {
		s = s[1:]
	}
	for len(s) > 0 && (s[len(s)-1] == ' ' || s[len(s)-1] == '\t') {
		s = s[:len(s)-1]
	}
	return s
}

func VerifC16Requirement() {
	name := c16Sym(c16Names[vParam("tn")], "n")
	extras := c16Sym(c16Extras[vParam("te")], "e")
	spec := c16Sym(c16Specs[vParam("ts")], "s")
	marker := c16Sym(c16Markers[vParam("tm")], "m")
	ws := []string{"", " ", "\t", "  "}
	w1, w2, w3 := ws[vParam("w1")], ws[vParam("w2")], ws[vParam("w3")]
	text := ws[vParam("w0")] + name + w1 + extras + w2 + spec + w3 + marker + ws[vParam("w0")]
	vObserveStr("text", text)
	d, err := ParseDependency(text)
	vAssert(err == nil, "a valid requirement string is accepted")
	if err != nil {
		return
	}
	vCover(true, "requirement parsed")
	vObserveStr("name", d.Name)
	vAssert(d.Name == c16RefCanon(name), "the name is the normalised name")
	wantExtras := ""
	if len(extras) >= 2 {
		wantExtras = c16Trim(extras[1 : len(extras)-1])
	}
	vAssert(d.Extras == wantExtras, "the extras are the text between the brackets")
	vAssert(d.Constraint == c16Strip(spec), "the specifier is the version specifier text")
	wantEnv := ""
	if len(marker) > 0 {
		wantEnv = c16Trim(marker[1:])
	}
	vAssert(d.Environment == wantEnv, "the marker is the text after the semicolon")
}

func VerifC16CanonName() {
	name := c16Sym(c16Names[vParam("tn")], "n")
	c := CanonPackageName(name)
	vObserveStr("canon", c)
	vCover(true, "valid name canonicalised")
	vAssert(c == c16RefCanon(name), "name normalisation equals PEP 503")
	vAssert(CanonPackageName(c) == c, "name normalisation is idempotent on valid names")
}

func VerifC16CanonIdempotent() {
	s := vBytes("s", vParam("n"))
	// names are made of [A-Za-z0-9._-]; anything else is not a name at all
	for i := 0; i < len(s); i++ {
		b := s[i]
		vAssume(vOr(vOr(vAnd('a' <= b, b <= 'z'), vAnd('A' <= b, b <= 'Z')), vOr(vAnd('0' <= b, b <= '9'), vOr(vOr(b == '-', b == '_'), b == '.'))))
	}
	c := CanonPackageName(s)
	vCover(true, "canon computed")
	vAssert(CanonPackageName(c) == c, "name normalisation is idempotent")
}

// VerifC10CanonVersion (C10): pypi.CanonVersion is idempotent on arbitrary bytes: a version that parses is
// replaced by a canonical string that parses to itself; anything else is returned as it is.
func VerifC10CanonVersion() {
	s := vBytes("s", vParam("n"))
	c := CanonVersion(s)
	vObserveStr("canon", c)
	vCover(c != s, "version canonicalised to a different string")
	vAssert(CanonVersion(c) == c, "pypi.CanonVersion is idempotent")
}
