package pypi

// C04 for util/pypi: PEP 508 requirement strings, name and version
// canonicalisation, wheel and sdist file names on arbitrary bytes.

func VerifC04ParseDependency() {
	s := vBytes("s", vParam("n"))
	d, err := ParseDependency(s)
	vObserveBool("ok", err == nil)
	if err == nil {
		vCover(true, "accepted")
		vObserveStr("name", d.Name)
		vObserveStr("extras", d.Extras)
		vObserveStr("constraint", d.Constraint)
		vObserveStr("env", d.Environment)
	} else {
		vCover(true, "rejected")
	}
}

func VerifC04Names() {
	s := vBytes("s", vParam("n"))
	c := CanonPackageName(s)
	vObserveStr("canon", c)
	vCover(true, "canon computed")
	_ = CanonVersion(s)
	w, err := ParseWheelName(s + ".whl")
	if err == nil {
		vCover(true, "wheel accepted")
		_ = w.Name
	}
	_, _, _ = SdistVersion("a", s+".tar.gz")
	_, _, _ = SdistVersion(c, s)
}
