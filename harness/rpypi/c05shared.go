package pypi

// C05, concurrency clause, decided sequentially: a Resolve call touches state
// that other goroutines can reach (everything that existed before the call:
// the client, the resolver where it is shared, package-level variables) only
// under an exclusive lock or through sync/atomic. The engine checks the
// discipline on every feasible path of one Resolve call; the native replay of
// a counterexample runs eight concurrent Resolve calls on that universe under
// the race detector.

import (
	"context"
	"sync"

	"deps.dev/util/resolve"
)

func c05ResolveOnce(r resolve.Resolver, root resolve.VersionKey) {
	_, _ = r.Resolve(context.Background(), root)
}

// c05Shared: mk builds the resolver; perGoroutine says whether every goroutine gets its own resolver over the
// shared client (PyPI) or all share one (npm, Maven).
func c05Shared(lc resolve.Client, root, warm resolve.VersionKey, mk func(resolve.Client) resolve.Resolver, perGoroutine bool) {
	if vEngine() {
		var r resolve.Resolver
		if !perGoroutine {
			r = mk(lc)
			if vParam("warm") != 0 {
				// an earlier resolution of another root on the shared resolver: whatever it left behind
				// (memo tables and what they point to) is shared state for the call under test
				c05ResolveOnce(r, warm)
				vCover(true, "shared resolver warmed up by an earlier resolution")
			}
		}
		vShareBarrier()
		if perGoroutine {
			r = mk(lc)
		}
		c05ResolveOnce(r, root)
		n := vRaceReport()
		vCover(true, "one Resolve call checked against the shared-state discipline")
		vAssert(n == 0, "Resolve reads and writes state shared between concurrent calls only under its lock")
		return
	}
	shared := mk(lc)
	if !perGoroutine && vParam("warm") != 0 {
		c05ResolveOnce(shared, warm)
		vCover(true, "shared resolver warmed up by an earlier resolution")
	}
	vCover(true, "one Resolve call checked against the shared-state discipline")
	var wg sync.WaitGroup
	for i := 0; i < 8; i++ {
		wg.Add(1)
		go func() {
			defer wg.Done()
			r := shared
			if perGoroutine {
				r = mk(lc)
			}
			c05ResolveOnce(r, root)
		}()
	}
	wg.Wait()
}

func VerifC05PyPIShared() {
	u := c08rBuild()
	c05Shared(c05Client(u.es, false), u.root, u.root, NewResolver, true)
}
