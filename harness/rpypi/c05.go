package pypi

// C05 (PyPI): resolving never changes what the client subsequently reports.
// Unit level: the two places where the resolver filters a slice it got from
// the client (getDependencies, matchingVersionsWithPrereleases), and a whole
// Resolve on a small universe, each followed by a comparison of the client's
// answers with a snapshot taken before.

import (
	"context"

	"deps.dev/util/resolve"
	"deps.dev/util/resolve/dep"
	"deps.dev/util/resolve/version"
)

var c08N = [...]string{"0", "1", "2", "3", "4"}

func c05PK(name string) resolve.PackageKey {
	return resolve.PackageKey{System: resolve.PyPI, Name: name}
}
func c05VK(name, ver string) resolve.VersionKey {
	return resolve.VersionKey{PackageKey: c05PK(name), VersionType: resolve.Concrete, Version: ver}
}
func c05Req(name, spec, marker string) resolve.RequirementVersion {
	var t dep.Type
	if marker != "" {
		t.AddAttr(dep.Environment, marker)
	}
	return resolve.RequirementVersion{VersionKey: resolve.VersionKey{PackageKey: c05PK(name), VersionType: resolve.Requirement, Version: spec}, Type: t}
}

// c05Universe: root r 1.0 requires a, b, c with markers that are true or false
// depending on a symbolic digit; a has a prerelease between two releases.
func c05Universe() (*resolve.LocalClient, resolve.VersionKey) {
	lc := resolve.NewLocalClient()
	d := vByte("pyminor")
	vAssume(vAnd('0' <= d, d <= '9'))
	ds := string([]byte{d})
	root := c05VK("r", "1.0")
	lc.AddVersion(resolve.Version{VersionKey: root}, []resolve.RequirementVersion{
		c05Req("a", ">=1.0", "python_version < \"3."+ds+"\""),
		c05Req("b", "", ""),
		c05Req("c", "==1.0", "python_version >= \"3."+ds+"\""),
	})
	for _, v := range []string{"1.0", "2.0a1", "2.0"} {
		lc.AddVersion(resolve.Version{VersionKey: c05VK("a", v)}, nil)
	}
	lc.AddVersion(resolve.Version{VersionKey: c05VK("b", "1.0")}, []resolve.RequirementVersion{c05Req("a", ">=1.0,<3", "")})
	lc.AddVersion(resolve.Version{VersionKey: c05VK("c", "1.0")}, nil)
	var blocked version.AttrSet
	blocked.SetAttr(version.Blocked, "")
	lc.AddVersion(resolve.Version{VersionKey: c05VK("c", "0.9"), AttrSet: blocked}, nil)
	return lc, root
}

type c05USnapshot struct {
	reqs map[resolve.VersionKey][]resolve.RequirementVersion
	vers map[resolve.PackageKey][]resolve.Version
}

func c05UKeys() ([]resolve.VersionKey, []resolve.PackageKey) {
	return []resolve.VersionKey{c05VK("r", "1.0"), c05VK("a", "1.0"), c05VK("a", "2.0a1"), c05VK("a", "2.0"), c05VK("b", "1.0"), c05VK("c", "1.0")},
		[]resolve.PackageKey{c05PK("r"), c05PK("a"), c05PK("b"), c05PK("c")}
}

func c05USnap(lc *resolve.LocalClient) *c05USnapshot {
	ctx := context.Background()
	s := &c05USnapshot{reqs: map[resolve.VersionKey][]resolve.RequirementVersion{}, vers: map[resolve.PackageKey][]resolve.Version{}}
	vks, pks := c05UKeys()
	for _, vk := range vks {
		rs, _ := lc.Requirements(ctx, vk)
		s.reqs[vk] = append([]resolve.RequirementVersion(nil), rs...)
	}
	for _, pk := range pks {
		vs, _ := lc.Versions(ctx, pk)
		s.vers[pk] = append([]resolve.Version(nil), vs...)
	}
	return s
}

func c05USame(lc *resolve.LocalClient, before *c05USnapshot, what string) {
	ctx := context.Background()
	vks, pks := c05UKeys()
	for _, vk := range vks {
		rs, _ := lc.Requirements(ctx, vk)
		want := before.reqs[vk]
		vAssert(len(rs) == len(want), what+": the client reports the same number of requirements as before")
		if len(rs) == len(want) {
			for i := range rs {
				vAssert(rs[i].VersionKey == want[i].VersionKey && rs[i].Type.Equal(want[i].Type), what+": the client reports the same requirements in the same order as before")
			}
		}
	}
	for _, pk := range pks {
		vs, _ := lc.Versions(ctx, pk)
		want := before.vers[pk]
		vAssert(len(vs) == len(want), what+": the client lists the same number of versions as before")
		if len(vs) == len(want) {
			for i := range vs {
				vAssert(vs[i].VersionKey == want[i].VersionKey, what+": the client lists the same versions in the same order as before")
			}
		}
	}
}

func c05Provider(lc *resolve.LocalClient, root resolve.VersionKey) *provider {
	r := NewResolver(lc).(*resolver)
	return &provider{rc: r.client, markerCache: r.markerCache, constraintCache: r.constraintCache,
		prereleaseMatchCache: r.prereleaseMatchCache, rootPackage: root.PackageKey, rootVersion: root}
}

func VerifC05GetDependencies() {
	lc, root := c05Universe()
	before := c05USnap(lc)
	p := c05Provider(lc, root)
	deps, err := p.getDependencies(context.Background(), root, nil)
	vAssert(err == nil, "getDependencies succeeds")
	vCover(len(deps) == 2, "one requirement filtered out by its marker")
	c05USame(lc, before, "after getDependencies")
}

func VerifC05MatchingPrereleases() {
	lc, root := c05Universe()
	before := c05USnap(lc)
	p := c05Provider(lc, root)
	req := resolve.VersionKey{PackageKey: c05PK("a"), VersionType: resolve.Requirement, Version: "<2.0"}
	vks, err := p.matchingVersionsWithPrereleases(context.Background(), req)
	vAssert(err == nil, "matchingVersionsWithPrereleases succeeds")
	vCover(len(vks) >= 1, "some version matched")
	c05USame(lc, before, "after matchingVersionsWithPrereleases")
}

func VerifC05Resolve() {
	lc, root := c05Universe()
	before := c05USnap(lc)
	r := NewResolver(lc)
	g, err := r.Resolve(context.Background(), root)
	vAssert(err == nil, "Resolve succeeds")
	if err != nil {
		return
	}
	vCover(g.Error == "", "resolved without a graph error")
	vObserveInt("nodes", len(g.Nodes))
	c05USame(lc, before, "after Resolve")
	// asking again gives the same graph
	g2, err2 := r.Resolve(context.Background(), root)
	vAssert(err2 == nil, "second Resolve succeeds")
	if err2 == nil {
		vAssert(len(g2.Nodes) == len(g.Nodes) && len(g2.Edges) == len(g.Edges), "asking again gives a graph of the same size")
		if len(g2.Nodes) == len(g.Nodes) {
			g.Canon()
			g2.Canon()
			for i := range g.Nodes {
				vAssert(g.Nodes[i].Version == g2.Nodes[i].Version, "asking again gives the same nodes")
			}
		}
	}
	c05USame(lc, before, "after a second Resolve")
}

// ---- C05: resolution is a pure function of the universe and the root

type c05Entry struct {
	v    resolve.Version
	reqs []resolve.RequirementVersion
}

func c05Client(es []c05Entry, reversed bool) *resolve.LocalClient {
	lc := resolve.NewLocalClient()
	for k := range es {
		e := es[k]
		if reversed {
			e = es[len(es)-1-k]
		}
		lc.AddVersion(e.v, append([]resolve.RequirementVersion(nil), e.reqs...))
	}
	return lc
}

type c05Snap struct {
	reqs [][]resolve.RequirementVersion
	vers [][]resolve.Version
}

func c05Take(lc *resolve.LocalClient, es []c05Entry) *c05Snap {
	ctx := context.Background()
	s := &c05Snap{}
	for _, e := range es {
		rs, _ := lc.Requirements(ctx, e.v.VersionKey)
		s.reqs = append(s.reqs, append([]resolve.RequirementVersion(nil), rs...))
		vs, _ := lc.Versions(ctx, e.v.PackageKey)
		s.vers = append(s.vers, append([]resolve.Version(nil), vs...))
	}
	return s
}

func c05SameSnap(a, b *c05Snap, what string) {
	ok := true
	for i := range a.reqs {
		if len(a.reqs[i]) != len(b.reqs[i]) || len(a.vers[i]) != len(b.vers[i]) {
			ok = false
			continue
		}
		for j := range a.reqs[i] {
			ok = vAnd(ok, vAnd(a.reqs[i][j].VersionKey == b.reqs[i][j].VersionKey, a.reqs[i][j].Type.Equal(b.reqs[i][j].Type)))
		}
		for j := range a.vers[i] {
			ok = vAnd(ok, vAnd(a.vers[i][j].VersionKey == b.vers[i][j].VersionKey, a.vers[i][j].AttrSet.Equal(b.vers[i][j].AttrSet)))
		}
	}
	vAssert(ok, what+": the client reports the same requirements and versions, in the same order, as before")
}

func c05Clone(g *resolve.Graph) *resolve.Graph {
	if g == nil {
		return nil
	}
	c := &resolve.Graph{Error: g.Error}
	for _, n := range g.Nodes {
		c.Nodes = append(c.Nodes, resolve.Node{Version: n.Version, Errors: append([]resolve.NodeError(nil), n.Errors...)})
	}
	c.Edges = append(c.Edges, g.Edges...)
	return c
}

func c05SameGraph(g1, g2 *resolve.Graph, what string) {
	if g1 == nil || g2 == nil {
		vAssert(g1 == nil && g2 == nil, what+": both resolutions fail or both succeed")
		return
	}
	vAssert((g1.Error == "") == (g2.Error == ""), what+": both report a graph error or neither")
	vAssert(len(g1.Nodes) == len(g2.Nodes) && len(g1.Edges) == len(g2.Edges), what+": the same number of nodes and edges")
	if len(g1.Nodes) != len(g2.Nodes) || len(g1.Edges) != len(g2.Edges) {
		return
	}
	// Order-insensitive comparison (counting equal elements on both sides avoids sorting symbolic data):
	// every node and every edge occurs equally often in both graphs. One obligation per comparison.
	ok := len(g1.Nodes) == 0 || g1.Nodes[0].Version == g2.Nodes[0].Version
	for _, n := range g1.Nodes {
		c1, c2 := 0, 0
		for _, m := range g1.Nodes {
			c1 += vIteInt(vAnd(m.Version == n.Version, len(m.Errors) == len(n.Errors)), 1, 0)
		}
		for _, m := range g2.Nodes {
			c2 += vIteInt(vAnd(m.Version == n.Version, len(m.Errors) == len(n.Errors)), 1, 0)
		}
		ok = vAnd(ok, c1 == c2)
	}
	same := func(ga *resolve.Graph, a resolve.Edge, gb *resolve.Graph, b resolve.Edge) bool {
		return vAnd(vAnd(ga.Nodes[a.From].Version == gb.Nodes[b.From].Version, ga.Nodes[a.To].Version == gb.Nodes[b.To].Version),
			vAnd(a.Requirement == b.Requirement, a.Type.Equal(b.Type)))
	}
	for _, e := range g1.Edges {
		c1, c2 := 0, 0
		for _, f := range g1.Edges {
			c1 += vIteInt(same(g1, e, g1, f), 1, 0)
		}
		for _, f := range g2.Edges {
			c2 += vIteInt(same(g1, e, g2, f), 1, 0)
		}
		ok = vAnd(ok, c1 == c2)
	}
	vAssert(ok, what+": the same graph (root, nodes and edges)")
}

// c05Purity runs the purity clauses with the given resolver constructor.
func c05Purity(es []c05Entry, root resolve.VersionKey, mk func(resolve.Client) resolve.Resolver) {
	lc := c05Client(es, false)
	ctx := context.Background()
	before := c05Take(lc, es)
	r := mk(lc)
	g1, err1 := r.Resolve(ctx, root)
	if err1 != nil {
		g1 = nil
	}
	vCover(g1 != nil && len(g1.Nodes) > 1, "resolved a graph with dependencies")
	c05SameSnap(before, c05Take(lc, es), "after Resolve")
	g1b, err := r.Resolve(ctx, root)
	if err != nil {
		g1b = nil
	}
	c05SameGraph(c05Clone(g1), c05Clone(g1b), "asking again")
	if len(es) > 1 {
		alt := es[1+vParam("alt")%(len(es)-1)].v.VersionKey
		gAlt, errAlt := r.Resolve(ctx, alt)
		if errAlt != nil {
			gAlt = nil
		}
		vCover(true, "other root resolved in between")
		// the other root's own graph does not depend on the resolutions run before it on this resolver
		gFresh, errFresh := mk(c05Client(es, false)).Resolve(ctx, alt)
		if errFresh != nil {
			gFresh = nil
		}
		c05SameGraph(c05Clone(gAlt), c05Clone(gFresh), "a root resolved after another one, against a fresh resolver")
		g1c, err := r.Resolve(ctx, root)
		if err != nil {
			g1c = nil
		}
		c05SameGraph(c05Clone(g1), c05Clone(g1c), "after resolving another root on the same resolver")
		c05SameSnap(before, c05Take(lc, es), "after resolving another root")
	}
	lc2 := c05Client(es, true)
	g2, err := mk(lc2).Resolve(ctx, root)
	if err != nil {
		g2 = nil
	}
	c05SameGraph(c05Clone(g1), c05Clone(g2), "with the versions inserted in the opposite order")
}

func VerifC05PyPI() {
	u := c08rBuild()
	c05Purity(u.es, u.root, NewResolver)
}
