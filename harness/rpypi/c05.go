package pypi

// C05 (PyPI): resolving never changes what the client subsequently reports.
// Unit level: the two places where the resolver filters a slice it got from
// the client (getDependencies, matchingVersionsWithPrereleases), and a whole
// Resolve on a small universe, each followed by a comparison of the client's
// answers with a snapshot taken before.

import (
	"context"

	"deps.dev/util/resolve"
	"deps.dev/util/resolve/dep"
	"deps.dev/util/resolve/version"
)

func c05PK(name string) resolve.PackageKey { return resolve.PackageKey{System: resolve.PyPI, Name: name} }
func c05VK(name, ver string) resolve.VersionKey {
	return resolve.VersionKey{PackageKey: c05PK(name), VersionType: resolve.Concrete, Version: ver}
}
func c05Req(name, spec, marker string) resolve.RequirementVersion {
	var t dep.Type
	if marker != "" {
		t.AddAttr(dep.Environment, marker)
	}
	return resolve.RequirementVersion{VersionKey: resolve.VersionKey{PackageKey: c05PK(name), VersionType: resolve.Requirement, Version: spec}, Type: t}
}

// c05Universe: root r 1.0 requires a, b, c with markers that are true or false
// depending on a symbolic digit; a has a prerelease between two releases.
func c05Universe() (*resolve.LocalClient, resolve.VersionKey) {
	lc := resolve.NewLocalClient()
	d := vByte("pyminor")
	vAssume(vAnd('0' <= d, d <= '9'))
	ds := string([]byte{d})
	root := c05VK("r", "1.0")
	lc.AddVersion(resolve.Version{VersionKey: root}, []resolve.RequirementVersion{
		c05Req("a", ">=1.0", "python_version < \"3."+ds+"\""),
		c05Req("b", "", ""),
		c05Req("c", "==1.0", "python_version >= \"3."+ds+"\""),
	})
	for _, v := range []string{"1.0", "2.0a1", "2.0"} {
		lc.AddVersion(resolve.Version{VersionKey: c05VK("a", v)}, nil)
	}
	lc.AddVersion(resolve.Version{VersionKey: c05VK("b", "1.0")}, []resolve.RequirementVersion{c05Req("a", ">=1.0,<3", "")})
	lc.AddVersion(resolve.Version{VersionKey: c05VK("c", "1.0")}, nil)
	var blocked version.AttrSet
	blocked.SetAttr(version.Blocked, "")
	lc.AddVersion(resolve.Version{VersionKey: c05VK("c", "0.9"), AttrSet: blocked}, nil)
	return lc, root
}

type c05Snapshot struct {
	reqs map[resolve.VersionKey][]resolve.RequirementVersion
	vers map[resolve.PackageKey][]resolve.Version
}

func c05Keys() ([]resolve.VersionKey, []resolve.PackageKey) {
	return []resolve.VersionKey{c05VK("r", "1.0"), c05VK("a", "1.0"), c05VK("a", "2.0a1"), c05VK("a", "2.0"), c05VK("b", "1.0"), c05VK("c", "1.0")},
		[]resolve.PackageKey{c05PK("r"), c05PK("a"), c05PK("b"), c05PK("c")}
}

func c05Snap(lc *resolve.LocalClient) *c05Snapshot {
	ctx := context.Background()
	s := &c05Snapshot{reqs: map[resolve.VersionKey][]resolve.RequirementVersion{}, vers: map[resolve.PackageKey][]resolve.Version{}}
	vks, pks := c05Keys()
	for _, vk := range vks {
		rs, _ := lc.Requirements(ctx, vk)
		s.reqs[vk] = append([]resolve.RequirementVersion(nil), rs...)
	}
	for _, pk := range pks {
		vs, _ := lc.Versions(ctx, pk)
		s.vers[pk] = append([]resolve.Version(nil), vs...)
	}
	return s
}

func c05Same(lc *resolve.LocalClient, before *c05Snapshot, what string) {
	ctx := context.Background()
	vks, pks := c05Keys()
	for _, vk := range vks {
		rs, _ := lc.Requirements(ctx, vk)
		want := before.reqs[vk]
		vAssert(len(rs) == len(want), what+": the client reports the same number of requirements as before")
		if len(rs) == len(want) {
			for i := range rs {
				vAssert(rs[i].VersionKey == want[i].VersionKey && rs[i].Type.Equal(want[i].Type), what+": the client reports the same requirements in the same order as before")
			}
		}
	}
	for _, pk := range pks {
		vs, _ := lc.Versions(ctx, pk)
		want := before.vers[pk]
		vAssert(len(vs) == len(want), what+": the client lists the same number of versions as before")
		if len(vs) == len(want) {
			for i := range vs {
				vAssert(vs[i].VersionKey == want[i].VersionKey, what+": the client lists the same versions in the same order as before")
			}
		}
	}
}

func c05Provider(lc *resolve.LocalClient, root resolve.VersionKey) *provider {
	r := NewResolver(lc).(*resolver)
	return &provider{rc: r.client, markerCache: r.markerCache, constraintCache: r.constraintCache,
		prereleaseMatchCache: r.prereleaseMatchCache, rootPackage: root.PackageKey, rootVersion: root}
}

func VerifC05GetDependencies() {
	lc, root := c05Universe()
	before := c05Snap(lc)
	p := c05Provider(lc, root)
	deps, err := p.getDependencies(context.Background(), root, nil)
	vAssert(err == nil, "getDependencies succeeds")
	vCover(len(deps) == 2, "one requirement filtered out by its marker")
	c05Same(lc, before, "after getDependencies")
}

func VerifC05MatchingPrereleases() {
	lc, root := c05Universe()
	before := c05Snap(lc)
	p := c05Provider(lc, root)
	req := resolve.VersionKey{PackageKey: c05PK("a"), VersionType: resolve.Requirement, Version: "<2.0"}
	vks, err := p.matchingVersionsWithPrereleases(context.Background(), req)
	vAssert(err == nil, "matchingVersionsWithPrereleases succeeds")
	vCover(len(vks) >= 1, "some version matched")
	c05Same(lc, before, "after matchingVersionsWithPrereleases")
}

func VerifC05Resolve() {
	lc, root := c05Universe()
	before := c05Snap(lc)
	r := NewResolver(lc)
	g, err := r.Resolve(context.Background(), root)
	vAssert(err == nil, "Resolve succeeds")
	if err != nil {
		return
	}
	vCover(g.Error == "", "resolved without a graph error")
	vObserveInt("nodes", len(g.Nodes))
	c05Same(lc, before, "after Resolve")
	// asking again gives the same graph
	g2, err2 := r.Resolve(context.Background(), root)
	vAssert(err2 == nil, "second Resolve succeeds")
	if err2 == nil {
		vAssert(len(g2.Nodes) == len(g.Nodes) && len(g2.Edges) == len(g.Edges), "asking again gives a graph of the same size")
		if len(g2.Nodes) == len(g.Nodes) {
			g.Canon()
			g2.Canon()
			for i := range g.Nodes {
				vAssert(g.Nodes[i].Version == g2.Nodes[i].Version, "asking again gives the same nodes")
			}
		}
	}
	c05Same(lc, before, "after a second Resolve")
}
