package pypi

// C08: unit lemmas behind the PyPI resolver's state handling, each one step
// from an arbitrary valid pre-state: criteria (sorted association list),
// versionMap (map + insertion stack), intersect, filterSlice, and the
// independence of copied states.

import "deps.dev/util/resolve"

func c08Name(tag string) resolve.PackageKey {
	b := vByte(tag)
	vAssume(vAnd('a' <= b, b <= 'e'))
	return resolve.PackageKey{System: resolve.PyPI, Name: string([]byte{b})}
}

func c08Crit(tag string) criterion {
	// a criterion recognisable by its single candidate
	return criterion{candidates: []resolve.VersionKey{{VersionType: resolve.Concrete, Version: string([]byte{vByte(tag)})}}}
}

// VerifC08Criteria: Put keeps the list sorted and duplicate-free and Get
// returns what the last Put for that name stored (a map).
func VerifC08Criteria() {
	n := vParam("n")
	cs := newCriteria()
	names := make([]resolve.PackageKey, n)
	vals := make([]criterion, n)
	for i := 0; i < n; i++ {
		names[i] = c08Name("name" + c08N[i])
		vals[i] = c08Crit("val" + c08N[i])
		cs.Put(names[i], vals[i])
	}
	vCover(true, "puts done")
	// sorted, unique
	for i := 0; i+1 < cs.Len(); i++ {
		vAssert((*cs)[i].name.Compare((*cs)[i+1].name) < 0, "criteria stay sorted and duplicate-free")
	}
	// map semantics: last Put wins
	for i := 0; i < n; i++ {
		last := i
		for j := i + 1; j < n; j++ {
			if names[j] == names[i] {
				last = j
			}
		}
		got, ok := cs.Get(names[i])
		vAssert(ok, "a stored name is found")
		vAssert(got.candidates[0].Version == vals[last].candidates[0].Version, "Get returns what the last Put stored")
	}
	probe := c08Name("probe")
	_, ok := cs.Get(probe)
	known := false
	for i := 0; i < n; i++ {
		known = vOr(known, names[i] == probe)
	}
	vAssert(ok == known, "Get finds exactly the stored names")
	// a copy is independent of later Puts on either side
	cp := cs.Copy()
	before := cs.Len()
	extra := c08Name("extra")
	cp.Put(extra, c08Crit("extraval"))
	vAssert(cs.Len() == before, "a Put on the copy does not change the original's length")
	for i := 0; i < n; i++ {
		last := i
		for j := i + 1; j < n; j++ {
			if names[j] == names[i] {
				last = j
			}
		}
		got, _ := cs.Get(names[i])
		vAssert(got.candidates[0].Version == vals[last].candidates[0].Version, "a Put on the copy does not change the original's entries")
	}
}

// VerifC08VersionMap: Set/Pop keep map and stack consistent; Clone is independent.
func VerifC08VersionMap() {
	n := vParam("n")
	vm := newVersionMap(2)
	names := make([]resolve.PackageKey, n)
	for i := 0; i < n; i++ {
		names[i] = c08Name("name" + c08N[i])
		vm.Set(names[i], resolve.VersionKey{PackageKey: names[i], VersionType: resolve.Concrete, Version: c08N[i]})
	}
	vCover(true, "sets done")
	vAssert(vm.Len() == len(vm.stack), "map and stack have the same size")
	for _, p := range vm.stack {
		_, ok := vm.m[p]
		vAssert(ok, "every stacked key is in the map")
	}
	cl := vm.Clone()
	// popping returns the most recently set key with its latest version
	pk, vk := vm.Pop()
	if n > 0 {
		vAssert(pk == names[n-1], "Pop returns the most recently set key")
		vAssert(vk.Version == c08N[n-1], "Pop returns the latest version of that key")
		_, still := vm.Get(pk)
		vAssert(!still, "a popped key is gone")
		got, ok := cl.Get(pk)
		vAssert(ok && got.Version == c08N[n-1], "a clone is unaffected by a later Pop on the original")
	}
	vAssert(vm.Len() == len(vm.stack), "map and stack stay the same size after Pop")
}

// VerifC08Intersect: on sorted duplicate-free lists the result is exactly the
// common elements, in order.
func VerifC08Intersect() {
	la, lb := vParam("la"), vParam("lb")
	mk := func(tag string, n int) []resolve.VersionKey {
		out := make([]resolve.VersionKey, n)
		for i := 0; i < n; i++ {
			b := vByte(tag + c08N[i])
			vAssume(vAnd('1' <= b, b <= '6'))
			if i > 0 {
				vAssume(out[i-1].Version[0] < b) // sorted, no duplicates
			}
			out[i] = resolve.VersionKey{VersionType: resolve.Concrete, Version: string([]byte{b})}
		}
		return out
	}
	a, b := mk("a", la), mk("b", lb)
	acopy := append([]resolve.VersionKey(nil), a...)
	bcopy := append([]resolve.VersionKey(nil), b...)
	res := intersect(a, b)
	vCover(len(res) > 0, "non-empty intersection")
	vCover(len(res) == 0, "empty intersection")
	for _, x := range acopy {
		inB := false
		for _, y := range bcopy {
			inB = vOr(inB, x == y)
		}
		inRes := false
		for _, z := range res {
			inRes = vOr(inRes, x == z)
		}
		vAssert(inRes == inB, "the intersection holds exactly the elements of a that are in b")
	}
	for i := 0; i+1 < len(res); i++ {
		vAssert(res[i].Version < res[i+1].Version, "the intersection stays sorted")
	}
	for i := range bcopy {
		vAssert(b[i] == bcopy[i], "b is not modified")
	}
}

// VerifC08FilterSlice: keeps exactly the elements satisfying the predicate.
func VerifC08FilterSlice() {
	n := vParam("n")
	in := make([]int, n)
	for i := range in {
		in[i] = int(vByte("x" + c08N[i]))
	}
	orig := append([]int(nil), in...)
	out, err := filterSlice(in, func(x int) (bool, error) { return x%2 == 0, nil })
	vAssert(err == nil, "no error")
	vCover(len(out) < n, "something filtered")
	count := 0
	for _, x := range orig {
		if x%2 == 0 {
			count++
		}
	}
	vAssert(len(out) == count, "the result has as many elements as satisfy the predicate")
	for _, x := range out {
		vAssert(x%2 == 0, "every kept element satisfies the predicate")
	}
}
