package pypi

// C08 (whole resolver): the real PyPI Resolve on skeleton universes whose
// structure comes from job parameters and whose version numbers, specifier
// numbers and marker thresholds are symbolic digits; the clauses of the
// property are asserted on the returned graph.

import (
	"context"

	"deps.dev/util/resolve"
	"deps.dev/util/resolve/dep"
	"deps.dev/util/semver"
)

var c08rNames = []string{"a", "b", "c"}
var c08rSpecs = []string{"", "==D.0", ">=D.0", "<D.0", "!=D.0", "~=D.0", ">=D.0,<E.0", "<=D.0"}

func c08rDigit(tag string) string {
	b := vByte(tag)
	vAssume(vAnd('1' <= b, b <= '4'))
	return string([]byte{b})
}

func c08rSpec(kind int, tag string) string {
	t := c08rSpecs[kind]
	out := ""
	for i := 0; i < len(t); i++ {
		switch t[i] {
		case 'D', 'E':
			out += c08rDigit(tag + "." + t[i:i+1])
		default:
			out += t[i : i+1]
		}
	}
	return out
}

type c08rSlot struct {
	req    resolve.RequirementVersion
	marker bool // the marker's truth value in the fixed environment (python_version 3.9)
	has    bool
}

func c08rMakeSlot(tag string) c08rSlot {
	target := vParam(tag + "t")
	if target == 0 {
		return c08rSlot{}
	}
	spec := c08rSpec(vParam(tag+"r"), tag)
	var t dep.Type
	truth := true
	switch vParam(tag + "m") {
	case 1: // python_version >= "3.D": true iff D <= 9 (always) -- use major digit instead
		d := c08rDigit(tag + ".mk")
		t.AddAttr(dep.Environment, "python_version >= \""+d+".0\"")
		truth = d[0] <= '3'
	case 2:
		d := c08rDigit(tag + ".mk")
		t.AddAttr(dep.Environment, "python_version < \""+d+".0\" and os_name == \"posix\"")
		truth = d[0] > '3'
	case 3:
		t.AddAttr(dep.Environment, "extra == \"x\"")
		truth = false
	}
	return c08rSlot{has: true, marker: truth, req: resolve.RequirementVersion{
		VersionKey: resolve.VersionKey{PackageKey: c05PK(c08rNames[target-1]), VersionType: resolve.Requirement, Version: spec}, Type: t}}
}

type c08rUniverse struct {
	es    []c05Entry
	root  resolve.VersionKey
	slots map[resolve.VersionKey][]c08rSlot
}

func c08rBuild() *c08rUniverse {
	u := &c08rUniverse{root: c05VK("r", "1.0"), slots: map[resolve.VersionKey][]c08rSlot{}}
	var rr []resolve.RequirementVersion
	for s := 0; s < 3; s++ {
		sl := c08rMakeSlot("r" + c08N[s])
		if sl.has {
			u.slots[u.root] = append(u.slots[u.root], sl)
			rr = append(rr, sl.req)
		}
	}
	u.es = append(u.es, c05Entry{v: resolve.Version{VersionKey: u.root}, reqs: rr})
	for pi, p := range c08rNames {
		prev := byte(0)
		for vi := 0; vi < vParam("nv"+c08N[pi]); vi++ {
			b := vByte("ver" + c08N[pi] + c08N[vi])
			vAssume(vAnd('1' <= b, b <= '4'))
			vAssume(prev < b)
			prev = b
			ver := string([]byte{b}) + ".0"
			if vParam("pre"+c08N[pi]) == vi {
				ver += "rc1"
			}
			vk := c05VK(p, ver)
			var reqs []resolve.RequirementVersion
			sl := c08rMakeSlot("p" + c08N[pi] + c08N[vi])
			if sl.has {
				u.slots[vk] = append(u.slots[vk], sl)
				reqs = append(reqs, sl.req)
			}
			u.es = append(u.es, c05Entry{v: resolve.Version{VersionKey: vk}, reqs: reqs})
		}
	}
	return u
}

func VerifC08Resolve() {
	u := c08rBuild()
	lc := c05Client(u.es, false)
	ctx := context.Background()
	root, slots := u.root, u.slots
	g, err := NewResolver(lc).Resolve(ctx, root)
	if err != nil {
		vCover(true, "resolution error")
		return
	}
	vCover(true, "resolved")
	if g.Error != "" {
		vCover(true, "graph-level error")
		return
	}
	vObserveInt("nodes", len(g.Nodes))
	vCover(len(g.Nodes) > 2, "a graph with several nodes")
	// exactly one version per package; the root version itself is never replaced
	vAssert(g.Nodes[0].Version == root, "the root version is the root of the graph")
	for i := range g.Nodes {
		for j := i + 1; j < len(g.Nodes); j++ {
			vAssert(g.Nodes[i].Version.PackageKey != g.Nodes[j].Version.PackageKey, "exactly one version per package")
		}
	}
	// every requirement of every selected version whose marker is true is an edge to a selected version that satisfies its specifier
	for ni, n := range g.Nodes {
		for _, sl := range slots[n.Version] {
			found := false
			for _, e := range g.Edges {
				if int(e.From) == ni && g.Nodes[e.To].Version.PackageKey == sl.req.PackageKey && e.Requirement == sl.req.Version {
					found = true
					c, cerr := semver.PyPI.ParseConstraint(sl.req.Version)
					if cerr == nil {
						v, verr := semver.PyPI.Parse(g.Nodes[e.To].Version.Version)
						vAssert(verr == nil && c.MatchVersionPrerelease(v), "an edge leads to a selected version that satisfies the specifier (prereleases admitted by pip's rule)")
					}
				}
			}
			if sl.marker {
				vCover(true, "true marker checked")
				vAssert(found, "a requirement whose marker is true is represented by an edge")
			} else {
				vCover(true, "false marker checked")
				vAssert(!found, "a requirement whose marker is false contributes nothing")
			}
		}
	}
	reach := make([]bool, len(g.Nodes))
	reach[0] = true
	for round := 0; round < len(g.Nodes); round++ {
		for _, e := range g.Edges {
			if reach[e.From] {
				reach[e.To] = true
			}
		}
	}
	for i := range reach {
		vAssert(reach[i], "every node is reachable from the root")
	}
}
