package pypi

// C08, second generation of universes: two requirement slots per version,
// requirements on the root package (cycles through the root; the root package
// has a second version that must never replace the root), requested extras
// and extra-guarded requirements, specifiers that mention prereleases. Digits
// in versions are concrete here; digits in specifiers and marker thresholds
// are symbolic for the first few requirements (job parameter "c" per slot).

import (
	"context"
	"strings"

	"deps.dev/util/resolve"
	"deps.dev/util/resolve/dep"
	"deps.dev/util/semver"
)

var c08r2Names = []string{"a", "b", "c", "r", "d"} // target index 4 is the root package, 5 the optional fourth package
var c08r2Specs = []string{"", "==D.0", ">=D.0", "<D.0", "!=D.0", "~=D.0", ">=D.0,<E.0", "<=D.0", ">=D.0rc1", ">D.0", "==D.*", "<=D.0rc1"}
var c08r2Extras = []string{"", "x", "y", "x,y"}

type c08r2Slot struct {
	req     resolve.RequirementVersion
	truth   bool   // truth of the marker's environment part
	extra   string // the marker also demands this extra ("" = none)
	has     bool
	noExtra bool
}

func c08r2Digit(tag string, conc int) string {
	if conc != 0 {
		return c08N[conc]
	}
	b := vByte(tag)
	vAssume(vAnd('1' <= b, b <= '3'))
	return string([]byte{b})
}

func c08r2MakeSlot(tag string) c08r2Slot {
	target := vParam(tag + "t")
	if target == 0 {
		return c08r2Slot{}
	}
	conc := vParam(tag + "c")
	spec := ""
	for _, ch := range []byte(c08r2Specs[vParam(tag+"r")]) {
		switch ch {
		case 'D':
			spec += c08r2Digit(tag+".D", conc)
		case 'E':
			spec += c08r2Digit(tag+".E", conc)
		default:
			spec += string([]byte{ch})
		}
	}
	var t dep.Type
	sl := c08r2Slot{has: true, truth: true}
	switch vParam(tag + "m") {
	case 1:
		d := c08r2Digit(tag+".mk", conc)
		t.AddAttr(dep.Environment, "python_version >= \""+d+".0\"")
		sl.truth = d[0] <= '3'
	case 2:
		d := c08r2Digit(tag+".mk", conc)
		t.AddAttr(dep.Environment, "python_version < \""+d+".0\" and os_name == \"posix\"")
		sl.truth = d[0] > '3'
	case 3:
		t.AddAttr(dep.Environment, "extra == \"x\"")
		sl.extra = "x"
	case 4:
		t.AddAttr(dep.Environment, "extra == \"y\"")
		sl.extra = "y"
	case 5:
		t.AddAttr(dep.Environment, "\"x\" == extra")
		sl.extra = "x"
	}
	if e := vParam(tag + "e"); e != 0 {
		t.AddAttr(dep.EnabledDependencies, c08r2Extras[e])
	}
	sl.req = resolve.RequirementVersion{VersionKey: resolve.VersionKey{PackageKey: c05PK(c08r2Names[target-1]), VersionType: resolve.Requirement, Version: spec}, Type: t}
	return sl
}

type c08r2Universe struct {
	es    []c05Entry
	root  resolve.VersionKey
	slots map[resolve.VersionKey][]c08r2Slot
}

func c08r2Build() *c08r2Universe {
	u := &c08r2Universe{root: c05VK("r", "1.0"), slots: map[resolve.VersionKey][]c08r2Slot{}}
	add := func(vk resolve.VersionKey, tags []string) {
		var reqs []resolve.RequirementVersion
		for _, tag := range tags {
			sl := c08r2MakeSlot(tag)
			if sl.has {
				u.slots[vk] = append(u.slots[vk], sl)
				reqs = append(reqs, sl.req)
			}
		}
		u.es = append(u.es, c05Entry{v: resolve.Version{VersionKey: vk}, reqs: reqs})
	}
	add(u.root, []string{"r0", "r1", "r2"})
	if vParam("rv2") != 0 {
		add(c05VK("r", "2.0"), []string{"q0"})
	}
	pkgs := []int{0, 1, 2}
	if vParam("np") == 4 {
		pkgs = append(pkgs, 4)
	}
	for _, pi := range pkgs {
		for vi := 0; vi < vParam("nv"+c08N[pi]); vi++ {
			tag := c08N[pi] + c08N[vi]
			ver := c08N[vParam("mj"+tag)] + ".0"
			if vParam("pr"+tag) != 0 {
				ver += "rc1"
			}
			add(c05VK(c08r2Names[pi], ver), []string{"p" + tag + "s0", "p" + tag + "s1"})
		}
	}
	return u
}

func VerifC08Resolve2() {
	u := c08r2Build()
	lc := c05Client(u.es, false)
	ctx := context.Background()
	root, slots := u.root, u.slots
	g, err := NewResolver(lc).Resolve(ctx, root)
	if !vEngine() {
		for _, e := range u.es {
			s := e.v.VersionKey.String() + " <-"
			for _, r := range e.reqs {
				s += " [" + r.VersionKey.String() + " " + r.Type.String() + "]"
			}
			vNote(s)
		}
		if err == nil {
			vNote(g.String())
		}
	}
	if err != nil {
		vCover(true, "resolution error")
		return
	}
	vCover(true, "resolved")
	if g.Error != "" {
		vCover(true, "graph-level error")
		return
	}
	vObserveInt("nodes", len(g.Nodes))
	vCover(len(g.Nodes) > 3, "a graph with several nodes")
	vAssert(g.Nodes[0].Version == root, "the root version is the root of the graph")
	for i := range g.Nodes {
		for j := i + 1; j < len(g.Nodes); j++ {
			vAssert(g.Nodes[i].Version.PackageKey != g.Nodes[j].Version.PackageKey, "exactly one version per package")
		}
		if i > 0 {
			vAssert(g.Nodes[i].Version.PackageKey != root.PackageKey, "the root version is never replaced by another version of the root package")
		}
	}
	// extras requested for each selected version: those named on the edges that lead to it
	requested := func(ni int, extra string) bool {
		for _, e := range g.Edges {
			if int(e.To) != ni {
				continue
			}
			if es, ok := e.Type.GetAttr(dep.EnabledDependencies); ok {
				for _, x := range strings.Split(es, ",") {
					if x == extra {
						return true
					}
				}
			}
		}
		return false
	}
	// staleRequest: some version that is not selected asks for this extra of the package.
	staleRequest := func(pk resolve.PackageKey, extra string) bool {
		for vk, sls := range slots {
			selected := false
			for _, n := range g.Nodes {
				if n.Version == vk {
					selected = true
				}
			}
			if selected {
				continue
			}
			for _, sl := range sls {
				if sl.req.PackageKey != pk {
					continue
				}
				if es, ok := sl.req.Type.GetAttr(dep.EnabledDependencies); ok {
					for _, x := range strings.Split(es, ",") {
						if x == extra {
							return true
						}
					}
				}
			}
		}
		return false
	}
	for ni, n := range g.Nodes {
		for _, sl := range slots[n.Version] {
			found := false
			for _, e := range g.Edges {
				if int(e.From) == ni && g.Nodes[e.To].Version.PackageKey == sl.req.PackageKey && e.Requirement == sl.req.Version {
					found = true
					c, cerr := semver.PyPI.ParseConstraint(sl.req.Version)
					if cerr == nil {
						v, verr := semver.PyPI.Parse(g.Nodes[e.To].Version.Version)
						vAssert(verr == nil && c.MatchVersionPrerelease(v), "an edge leads to a selected version that satisfies the specifier (prereleases admitted by pip's rule)")
					}
					vCover(g.Nodes[e.To].Version == root, "an edge back to the root")
				}
			}
			truth := sl.truth
			if sl.extra != "" {
				truth = requested(ni, sl.extra)
				vCover(truth, "a requirement guarded by a requested extra")
				if !truth && vParam("kf_c08_stale_extras") == 1 && staleRequest(n.Version.PackageKey, sl.extra) {
					continue // open finding: extras requested by a version that was tried and given up stay requested
				}
			}
			if truth {
				vCover(true, "true marker checked")
				vAssert(found, "a requirement whose marker is true is represented by an edge")
			} else {
				vCover(true, "false marker checked")
				vAssert(!found, "a requirement whose marker is false contributes nothing")
			}
		}
	}
	reach := make([]bool, len(g.Nodes))
	reach[0] = true
	for round := 0; round < len(g.Nodes); round++ {
		for _, e := range g.Edges {
			if reach[e.From] {
				reach[e.To] = true
			}
		}
	}
	for i := range reach {
		vAssert(reach[i], "every node is reachable from the root")
	}
}

func VerifC05PyPI2() {
	u := c08r2Build()
	c05Purity(u.es, u.root, NewResolver)
}

func VerifC05PyPIShared2() {
	u := c08r2Build()
	c05Shared(c05Client(u.es, false), u.root, u.root, NewResolver, true)
}
