package pypi

// C16 (markers): the real parser + evaluator against a transcription of
// packaging's rule on templated marker expressions `VAR OP 'LIT'`, combined
// with and/or/parentheses. Version comparison applies to the version-valued
// variables when the literal is a release version; everything else is a Python
// string comparison.

import (
	"context"

	"deps.dev/util/resolve"
	"deps.dev/util/resolve/dep"
	"deps.dev/util/resolve/pypi/internal"
)

var c16Vars = []string{"python_version", "python_full_version", "implementation_version", "os_name", "sys_platform",
	"platform_machine", "platform_system", "implementation_name", "platform_python_implementation"}
var c16Ops = []string{"<=", "<", "!=", "==", ">=", ">", "~=", "in", "not in"}
var c16Lits = []string{"d", "d.d", "d.d.d", "lll", "posix", "linux", "3.9", "3.9.6", "l", "vd.d", "Vd.d.d", "v3.9", " d.d", "d.d ", " 3.9"}
var c16D = [...]string{"0", "1", "2", "3"}

func c16Lit(t, tag string) string {
	sym := vBytes(tag, len(t))
	out := ""
	for i := 0; i < len(t); i++ {
		b := sym[i]
		switch t[i] {
		case 'd':
			vAssume(vAnd('0' <= b, b <= '9'))
			out += string([]byte{b})
		case 'l':
			vAssume(vAnd('a' <= b, b <= 'z'))
			out += string([]byte{b})
		default:
			out += t[i : i+1]
		}
	}
	return out
}

// release components of a "d(.d)*" string, zero padded to three
func c16Release(s string) ([3]int, int) {
	var r [3]int
	n := 0
	for i := 0; i < len(s); i++ {
		if s[i] == '.' {
			n++
			continue
		}
		if s[i] == 'v' || s[i] == 'V' || s[i] == ' ' { // PEP 440 admits a leading v; packaging strips white space around a version
			continue
		}
		r[n] = r[n]*10 + int(s[i]-'0')
	}
	return r, n + 1
}

func c16CmpRelease(a, b [3]int) int {
	c := 0
	for i := 2; i >= 0; i-- {
		c = vIteInt(a[i] < b[i], -1, vIteInt(a[i] > b[i], 1, c))
	}
	return c
}

// c16ExtraX: whether the extra x is requested in the evaluation the reference describes.
var c16ExtraX = true

// c16TextOnly: set by the C04 totality harness, which uses the marker texts without the reference.
var c16TextOnly bool

func c16IsVersionVar(i int) bool { return i <= 2 }
func c16IsReleaseLit(i int) bool { return i <= 2 || i == 6 || i == 7 || i >= 9 }

// c16Ref: packaging's answer for `VAR OP LIT` (var on the left); ok=false
// means packaging rejects the comparison.
func c16Ref(vi, oi, li int, lit string) (res bool, ok bool) {
	val := internal.Markers[c16Vars[vi]]
	op := c16Ops[oi]
	if c16IsVersionVar(vi) && c16IsReleaseLit(li) && op != "in" && op != "not in" {
		l, _ := c16Release(val)
		r, rn := c16Release(lit)
		c := c16CmpRelease(l, r)
		switch op {
		case "<=":
			return c <= 0, true
		case "<":
			return c < 0, true
		case "!=":
			return c != 0, true
		case "==":
			return c == 0, true
		case ">=":
			return c >= 0, true
		case ">":
			return c > 0, true
		case "~=":
			if rn < 2 {
				return false, false
			}
			pre := true
			for i := 0; i < rn-1; i++ {
				pre = vAnd(pre, l[i] == r[i])
			}
			return vAnd(c >= 0, pre), true
		}
	}
	switch op {
	case "<=":
		return val <= lit, true
	case "<":
		return val < lit, true
	case "!=":
		return val != lit, true
	case "==":
		return val == lit, true
	case ">=":
		return val >= lit, true
	case ">":
		return val > lit, true
	case "in":
		return c16Contains(lit, val), true
	case "not in":
		return !c16Contains(lit, val), true
	}
	return false, false // ~= on non-versions is undefined
}

func c16Contains(hay, needle string) bool {
	found := false
	for i := 0; i+len(needle) <= len(hay); i++ {
		found = vOr(found, hay[i:i+len(needle)] == needle)
	}
	return found
}

func c16Wsp(tag string) string {
	switch vParam(tag) {
	case 1:
		return " "
	case 2:
		return "\t "
	}
	return ""
}

func c16Atom(k int) (text string, ref bool, ok bool) {
	tag := c16D[k]
	if vParam("x"+tag) == 1 { // extra == 'l'
		name := c16Lit("l", "e"+tag)
		return "extra" + c16Wsp("w") + "==" + c16Wsp("w") + "'" + name + "'", vAnd(name == "x", c16ExtraX), true
	}
	if vParam("x"+tag) == 2 { // 'l' == extra: the variable on the right
		name := c16Lit("l", "e"+tag)
		return "'" + name + "'" + c16Wsp("w") + "==" + c16Wsp("w") + "extra", vAnd(name == "x", c16ExtraX), true
	}
	vi, oi, li := vParam("v"+tag), vParam("o"+tag), vParam("l"+tag)
	lit := c16Lit(c16Lits[li], "lit"+tag)
	if vParam("rev"+tag) == 1 {
		// literal OP variable, for the combinations packaging evaluates the same way in every release:
		// ordering between two versions, equality and containment between strings
		val := internal.Markers[c16Vars[vi]]
		op := c16Ops[oi]
		text = "'" + lit + "' " + op + " " + c16Vars[vi]
		if c16IsVersionVar(vi) && c16IsReleaseLit(li) {
			l, _ := c16Release(lit)
			r, _ := c16Release(val)
			c := c16CmpRelease(l, r)
			switch op {
			case "<=":
				return text, c <= 0, true
			case "<":
				return text, c < 0, true
			case "!=":
				return text, c != 0, true
			case "==":
				return text, c == 0, true
			case ">=":
				return text, c >= 0, true
			case ">":
				return text, c > 0, true
			}
		}
		switch op {
		case "==":
			return text, lit == val, true
		case "!=":
			return text, lit != val, true
		case "in":
			return text, c16Contains(val, lit), true
		case "not in":
			return text, !c16Contains(val, lit), true
		}
		if c16TextOnly {
			return text, false, false // the totality harness only wants the text
		}
		vAssume(false) // not generated
	}
	ref, ok = c16Ref(vi, oi, li, lit)
	q := "'"
	if vParam("q") == 1 {
		q = "\""
	}
	sp := c16Wsp("w")
	if c16Ops[oi] == "in" || c16Ops[oi] == "not in" {
		sp = " "
	}
	return c16Vars[vi] + sp + c16Ops[oi] + sp + q + lit + q, ref, ok
}

// c16Expr builds the marker expression of the job's shape with its reference value.
func c16Expr() (string, bool, bool) {
	shape := vParam("shape")
	a, ra, oka := c16Atom(0)
	text, ref, ok := a, ra, oka
	switch shape {
	case 1: // A and B
		b, rb, okb := c16Atom(1)
		text, ref, ok = a+" and "+b, vAnd(ra, rb), oka && okb
	case 2: // A or B
		b, rb, okb := c16Atom(1)
		text, ref, ok = a+" or "+b, vOr(ra, rb), oka && okb
	case 3: // A or B and C  (and binds tighter)
		b, rb, okb := c16Atom(1)
		c, rc, okc := c16Atom(2)
		text, ref, ok = a+" or "+b+" and "+c, vOr(ra, vAnd(rb, rc)), oka && okb && okc
	case 4: // (A or B) and C
		b, rb, okb := c16Atom(1)
		c, rc, okc := c16Atom(2)
		text, ref, ok = "("+a+" or "+b+") and "+c, vAnd(vOr(ra, rb), rc), oka && okb && okc
	case 5: // ( A )
		text = "(" + c16Wsp("w") + a + c16Wsp("w") + ")"
	}
	return text, ref, ok
}

func VerifC16Marker() {
	text, ref, ok := c16Expr()
	vObserveStr("marker", text)
	m, err := parseMarker(text)
	if !ok {
		vCover(true, "comparison packaging rejects")
		vAssert(err != nil, "a comparison packaging rejects is not evaluated silently")
		return
	}
	vAssert(err == nil, "a valid marker expression parses")
	if err != nil {
		return
	}
	vCover(true, "marker parsed")
	got := m.Eval(map[string]bool{"x": true})
	vObserveBool("got", got)
	vCover(got, "marker true")
	vCover(!got, "marker false")
	vAssert(got == ref, "the marker evaluates as packaging does in the fixed environment")
}

// VerifC16Followed: the resolution-level clause. A dependency guarded by the marker is in the resolved graph
// exactly when the marker is true for the fixed environment and the extras requested of its dependent:
// r requires app (with the extra x, or with none); app requires dep under the marker.
func VerifC16Followed() {
	c16ExtraX = vParam("withextra") == 1
	text, ref, ok := c16Expr()
	c16ExtraX = true
	if !ok {
		return
	}
	vObserveStr("marker", text)
	var rt, dt dep.Type
	if vParam("withextra") == 1 {
		rt.AddAttr(dep.EnabledDependencies, "x")
	}
	dt.AddAttr(dep.Environment, text)
	req := func(name string, t dep.Type) resolve.RequirementVersion {
		return resolve.RequirementVersion{VersionKey: resolve.VersionKey{PackageKey: c05PK(name), VersionType: resolve.Requirement, Version: ""}, Type: t}
	}
	lc := resolve.NewLocalClient()
	lc.AddVersion(resolve.Version{VersionKey: c05VK("r", "1.0")}, []resolve.RequirementVersion{req("app", rt)})
	lc.AddVersion(resolve.Version{VersionKey: c05VK("app", "1.0")}, []resolve.RequirementVersion{req("dep", dt)})
	lc.AddVersion(resolve.Version{VersionKey: c05VK("dep", "1.0")}, nil)
	g, err := NewResolver(lc).Resolve(context.Background(), c05VK("r", "1.0"))
	vAssert(err == nil && g.Error == "", "a universe with a valid marker resolves")
	if err != nil || g.Error != "" {
		return
	}
	followed := false
	for _, n := range g.Nodes {
		if n.Version.Name == "dep" {
			followed = true
		}
	}
	vObserveBool("followed", followed)
	vCover(followed, "guarded dependency followed")
	vCover(!followed, "guarded dependency not followed")
	vAssert(followed == ref, "a guarded dependency is followed exactly when the marker is true for the requested extras")
}
