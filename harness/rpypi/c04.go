package pypi

// C04 for the PyPI resolver's environment-marker parser and evaluator.

func VerifC04Marker() {
	s := vBytes("s", vParam("n"))
	m, err := parseMarker(s)
	vObserveBool("ok", err == nil)
	if err != nil {
		vCover(true, "rejected")
		return
	}
	vCover(true, "accepted")
	if m != nil {
		vObserveBool("eval", m.Eval(nil))
		_ = m.Eval(map[string]bool{"x": true})
		_ = m.String()
	}
}
