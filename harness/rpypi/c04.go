package pypi

// C04 for the PyPI resolver's environment-marker parser and evaluator.

func VerifC04Marker() {
	s := vBytes("s", vParam("n"))
	m, err := parseMarker(s)
	vObserveBool("ok", err == nil)
	if err != nil {
		vCover(true, "rejected")
		return
	}
	vCover(true, "accepted")
	if m != nil {
		vObserveBool("eval", m.Eval(nil))
		_ = m.Eval(map[string]bool{"x": true})
		_ = m.String()
	}
}

// VerifC04MarkerTemplate: totality on well-formed markers `VAR OP 'LIT'` (the templates of C16), which arbitrary
// bytes of the lengths above cannot spell: parse, then evaluate with and without a requested extra.
func VerifC04MarkerTemplate() {
	c16TextOnly = true
	text, _, _ := c16Atom(0)
	c16TextOnly = false
	vObserveStr("marker", text)
	m, err := parseMarker(text)
	if err != nil {
		vCover(true, "rejected")
		return
	}
	vCover(true, "accepted")
	if m != nil {
		_ = m.Eval(nil)
		_ = m.Eval(map[string]bool{"x": true})
		_ = m.String()
	}
}
