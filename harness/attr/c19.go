package attr

// C19: attribute sets are values: Compare is a total order whose equality is
// "same flags and same key/value pairs"; a Clone is equal and independent.

var c19Names = [...]string{"0", "1", "2", "3"}

// c19Set builds a Set through the public API: flag mask symbolic, keys chosen
// by the presence bit mask (job parameter), values symbolic strings.
func c19Set(tag string, present, vlen int) Set {
	var s Set
	s.Mask = Mask(vByte(tag + ".mask"))
	for k := 0; k < 3; k++ {
		if present&(1<<uint(k)) != 0 {
			s.SetAttr(uint8(k*5), vBytes(tag+".val"+c19Names[k], vlen)) // keys 0, 5, 10
		}
	}
	return s
}

// c19Same: same flags and the same key/value pairs, written without Compare.
func c19Same(a, b Set) bool {
	same := a.Mask == b.Mask
	for k := 0; k < 3; k++ {
		va, oka := a.GetAttr(uint8(k * 5))
		vb, okb := b.GetAttr(uint8(k * 5))
		same = vAnd(same, oka == okb)
		if oka && okb {
			same = vAnd(same, va == vb)
		}
	}
	return same
}

func VerifC19Order() {
	a := c19Set("a", vParam("pa"), vParam("la"))
	b := c19Set("b", vParam("pb"), vParam("lb"))
	c := c19Set("c", vParam("pc"), vParam("lc"))
	ab, ba := a.Compare(b), b.Compare(a)
	bc, ac := b.Compare(c), a.Compare(c)
	vObserveInt("ab", vSign(ab))
	vObserveInt("bc", vSign(bc))
	vCover(vAnd(ab < 0, bc < 0), "strict chain")
	vCover(ab == 0, "equal pair")
	vAssert(a.Compare(a) == 0, "reflexive")
	vAssert(vSign(ba) == -vSign(ab), "sign-antisymmetric")
	vAssert(vImplies(vAnd(ab <= 0, bc <= 0), ac <= 0), "transitive")
	vAssert(vIff(ab == 0, c19Same(a, b)), "equal exactly when same flags and same key/value pairs")
}

func VerifC19Clone() {
	a := c19Set("a", vParam("pa"), vParam("la"))
	c := a.Clone()
	vAssert(a.Compare(c) == 0, "clone equals original")
	vAssert(c19Same(a, c), "clone has the same flags and pairs")
	// Later operations on either side do not show on the other.
	snap := c19Set("a", vParam("pa"), vParam("la")) // an independent rebuild of the same value
	op := vParam("op")
	nk := uint8(vParam("nk") * 5)
	nv := vBytes("newval", vParam("ln"))
	switch op {
	case 0: // write to the original
		a.SetAttr(nk, nv)
		a.Mask |= Mask(vByte("newmask"))
		vAssert(c.Compare(snap) == 0, "clone unchanged by a write to the original")
		vAssert(c19Same(c, snap), "clone unchanged by a write to the original (pairs)")
	case 1: // write to the clone
		c.SetAttr(nk, nv)
		c.Mask |= Mask(vByte("newmask"))
		vAssert(a.Compare(snap) == 0, "original unchanged by a write to the clone")
		vAssert(c19Same(a, snap), "original unchanged by a write to the clone (pairs)")
	case 2: // clone of clone, write to the middle one
		d := c.Clone()
		c.SetAttr(nk, nv)
		vAssert(d.Compare(snap) == 0, "second clone unchanged")
		vAssert(a.Compare(snap) == 0, "original unchanged")
	}
	v, ok := a.GetAttr(nk)
	if op == 0 {
		vAssert(vAnd(ok, v == nv), "SetAttr stores the value")
		// the set after the write is the set that holds each key once with its last value: built afresh, one
		// SetAttr per key
		var want Set
		want.Mask = a.Mask
		for k := 0; k < 3; k++ {
			key := uint8(k * 5)
			if key == nk {
				want.SetAttr(key, nv)
			} else if old, had := snap.GetAttr(key); had {
				want.SetAttr(key, old)
			}
		}
		vCover(vParam("pa")&(1<<uint(vParam("nk"))) != 0, "a key written a second time")
		vAssert(a.Compare(want) == 0, "a set written twice on one key equals the set holding the last value")
		vAssert(want.Compare(a) == 0, "a set written twice on one key equals the set holding the last value (other side)")
		vAssert(c19Same(a, want), "a set written twice on one key holds the last value (pairs)")
		vAssert(vNot(vAnd(vParam("pa")&(1<<uint(vParam("nk"))) != 0, vAnd(c.Compare(a) == 0, vNot(c19Same(c, a))))), "Compare says equal only for the same pairs, also after a rewrite")
	}
	// Plain assignment shares the map: this is the aliasing Clone exists to avoid.
	if vParam("pa") != 0 {
		e := snap
		e.SetAttr(nk, nv)
		got, ok2 := snap.GetAttr(nk)
		vCover(vAnd(ok2, got == nv), "plain assignment shares the attribute map")
	}
}
