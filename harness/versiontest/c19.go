package versiontest

// C19 (text form): writing a version attribute set in the test schema syntax
// (String) and parsing it back (ParseString) gives an equal set.

import "deps.dev/util/resolve/version"

var c19Valued = []version.AttrKey{version.Redirect, version.Features, version.DerivedFrom, version.Tags, version.Ident, version.Registries}
var c19N = [...]string{"0", "1", "2"}

// values that spell the name of an attribute key, in some case
var c19Words = []string{"", "deleted", "Tags", "ERROR", "blocked", "redirect", "Features", "derivedfrom"}

func VerifC19TextRoundTrip() {
	var a version.AttrSet
	if vBool("blocked") {
		a.SetAttr(version.Blocked, "")
	}
	if vBool("error") {
		a.SetAttr(version.Error, "")
	}
	nk := vParam("nk")
	for i := 0; i < nk; i++ {
		val := vBytes("val"+c19N[i], vParam("len"+c19N[i]))
		if w := vParam("word" + c19N[i]); w != 0 {
			val = c19Words[w]
			vCover(true, "a value that spells an attribute key")
		}
		if vParam("kf_c19_text_value") == 1 {
			// open finding: the writer neither quotes nor escapes, so values that are
			// empty or contain white space do not survive (see known_findings.json)
			vAssume(len(val) > 0)
			for q := 0; q < len(val); q++ {
				c := val[q]
				vAssume(vAnd(c > ' ', c < 0x7f))
			}
		}
		a.SetAttr(c19Valued[(vParam("k0")+i)%len(c19Valued)], val)
	}
	text := String(a)
	vObserveStr("text", text)
	b, err := ParseString(text)
	vCover(true, "set written")
	vAssert(err == nil, "the written form parses")
	if err != nil {
		return
	}
	vAssert(a.Equal(b) && b.Equal(a), "parsing the written form gives an equal set")
}
