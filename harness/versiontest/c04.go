package versiontest

// C04 for the version-attribute text parsers used by the schema.

func VerifC04AttrParse() {
	s := vBytes("s", vParam("n"))
	a, err := ParseString(s)
	vObserveBool("ok", err == nil)
	if err == nil {
		vCover(true, "accepted")
		_ = String(a)
	} else {
		vCover(true, "rejected")
	}
	b, err := ParseSingle(s)
	if err == nil {
		_ = String(b)
	}
}

func VerifC04AttrParseKeyed() {
	keys := []string{"blocked", "redirect", "tags", "derivedfrom", "error", "features"}
	s := keys[vParam("key")] + " " + vBytes("s", vParam("n"))
	a, err := ParseString(s)
	vObserveBool("ok", err == nil)
	if err == nil {
		vCover(true, "accepted")
		_ = String(a)
	} else {
		vCover(true, "rejected")
	}
	b, err := ParseSingle(s)
	if err == nil {
		vCover(true, "single accepted")
		_ = String(b)
	}
}
